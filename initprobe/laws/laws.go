// Package laws holds the mapper laws the probe programs check on a sample of the address space. It
// imports no mapper: the programs hand it the functions of the mappers they link.
package laws

type Mapper struct {
	Name string
	B2P  func(uint32) (uint32, error)
	P2B  func(uint32) (uint32, error)
}

func class(p uint32) string {
	switch {
	case p < 0xE00000:
		return "rom"
	case p < 0xF00000:
		return "sram"
	case p >= 0xF50000:
		return "wram"
	}
	return "none"
}

// Check returns the number of addresses looked at; findings go to fail.
func Check(ms []Mapper, fail func(string, ...interface{})) int {
	n := 0
	offs := []uint32{0, 0x1FFF, 0x2000, 0x5FFF, 0x6000, 0x7FFF, 0x8000, 0xFFFF, 0x1234, 0x9ABC, 0xE000, 0xDFFF}
	for _, m := range ms {
		for bank := uint32(0); bank < 256; bank++ {
			for _, off := range offs {
				a := bank<<16 | off
				n++
				if pan := func() (p interface{}) {
					defer func() { p = recover() }()
					_, _ = m.B2P(a)
					_, _ = m.P2B(a)
					return nil
				}(); pan != nil {
					fail("%s: a call with $%06x failed: %v", m.Name, a, pan)
					continue
				}
				if p, err := m.B2P(a); err == nil {
					if class(p) == "none" {
						fail("%s: B2P($%06x)=$%06x outside every class window", m.Name, a, p)
					}
					b2, err2 := m.P2B(p)
					if err2 != nil {
						fail("%s: B2P($%06x)=$%06x but P2B of that fails: %v", m.Name, a, p, err2)
					} else if p2, err3 := m.B2P(b2); err3 != nil || p2 != p {
						fail("%s: B2P($%06x)=$%06x, P2B=$%06x, B2P again=($%06x,%v)", m.Name, a, p, b2, p2, err3)
					}
				}
				if b, err := m.P2B(a); err == nil {
					q, qerr := m.B2P(b)
					if qerr != nil {
						fail("%s: P2B($%06x)=$%06x which B2P does not map", m.Name, a, b)
					} else if class(q) != class(a) && !(class(a) == "wram" && class(q) == "wram") {
						fail("%s: P2B($%06x)=$%06x designates %s, want %s", m.Name, a, b, class(q), class(a))
					} else if q&0x1FFF != a&0x1FFF {
						fail("%s: P2B($%06x)=$%06x -> $%06x: offset within the 8 KiB page changed", m.Name, a, b, q)
					}
				} else if class(a) != "none" {
					fail("%s: P2B($%06x) rejected although the address lies in the %s window", m.Name, a, class(a))
				}
			}
		}
	}
	// the console-owned parts of the map are the same for every mapper
	for _, m := range ms {
		for bank := uint32(0); bank < 256; bank++ {
			system := bank&0x7F < 0x40
			for _, off := range []uint32{0, 1, 0x0FFF, 0x1FFF, 0x2000, 0x2100, 0x2180, 0x21FF, 0x2200, 0x3000, 0x4016, 0x4200, 0x4216, 0x43FF, 0x4400, 0x5000, 0x5FFF, 0x8000, 0xFFFF} {
				a := bank<<16 | off
				n++
				var p uint32
				var err error
				if pan := func() (x interface{}) {
					defer func() { x = recover() }()
					p, err = m.B2P(a)
					return nil
				}(); pan != nil {
					fail("%s: B2P($%06x) failed: %v", m.Name, a, pan)
					continue
				}
				switch {
				case bank == 0x7E || bank == 0x7F:
					if err != nil || p != 0xF50000+(a-0x7E0000) {
						fail("%s: B2P($%06x)=($%06x,%v): banks $7E-$7F are the work RAM", m.Name, a, p, err)
					}
				case system && off < 0x2000:
					if err != nil || p != 0xF50000+off {
						fail("%s: B2P($%06x)=($%06x,%v): the low 8 KiB of a system bank mirror the work RAM", m.Name, a, p, err)
					}
				case system && off < 0x6000:
					if err == nil || p != 0 {
						fail("%s: B2P($%06x)=($%06x,%v): the register area is never translated", m.Name, a, p, err)
					}
				default:
					if err == nil && class(p) == "none" {
						fail("%s: B2P($%06x)=$%06x outside every class window", m.Name, a, p)
					} else if err != nil && p != 0 {
						fail("%s: B2P($%06x) reports unmapped with a non-zero address $%06x", m.Name, a, p)
					}
				}
			}
		}
	}
	return n
}

// Pages: both ends of every 8 KiB page of the bus and of the pak space, both directions.
func Pages(ms []Mapper, fail func(string, ...interface{})) int {
	n := 0
	for _, m := range ms {
		for page := uint32(0); page < 2048; page++ {
			for _, a := range []uint32{page << 13, page<<13 | 0x1FFF} {
				n++
				func() {
					defer func() {
						if e := recover(); e != nil {
							fail("%s: a call with $%06x failed: %v", m.Name, a, e)
						}
					}()
					if p, err := m.B2P(a); err == nil {
						b2, err2 := m.P2B(p)
						if err2 != nil {
							fail("%s: B2P($%06x)=$%06x but P2B of that fails: %v", m.Name, a, p, err2)
						} else if p2, err3 := m.B2P(b2); err3 != nil || p2 != p {
							fail("%s: B2P($%06x)=$%06x, P2B=$%06x, B2P again=($%06x,%v)", m.Name, a, p, b2, p2, err3)
						}
					}
					if b, err := m.P2B(a); err == nil {
						if q, qerr := m.B2P(b); qerr != nil {
							fail("%s: P2B($%06x)=$%06x which B2P does not map", m.Name, a, b)
						} else if class(q) != class(a) || q&0x1FFF != a&0x1FFF {
							fail("%s: P2B($%06x)=$%06x -> $%06x: another class or offset", m.Name, a, b, q)
						}
					} else if class(a) != "none" {
						fail("%s: P2B($%06x) rejected although the address lies in the %s window", m.Name, a, class(a))
					}
				}()
			}
		}
	}
	return n
}
