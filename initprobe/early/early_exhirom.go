//go:build early_exhirom

// Package early sorts before github.com/... in Go's package initialisation order and imports only one
// mapper: its package-level initialiser runs before the other mapper packages have been initialised.
package early

import "github.com/alttpo/snes/mapping/exhirom"

// Touched is set during package initialisation.
var Touched = touch()

func touch() string {
	n := 0
	for a := uint32(0); a < 0x1000000; a += 0x1FFF {
		if _, err := exhirom.BusAddressToPak(a); err == nil {
			n++
		}
		if _, err := exhirom.PakAddressToBus(a); err == nil {
			n++
		}
	}
	if n == 0 {
		return "exhirom (nothing mapped?)"
	}
	return "exhirom"
}
