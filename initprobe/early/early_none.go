//go:build !early_lorom && !early_hirom && !early_exhirom && !early_sa1rom

package early

var Touched = "none"
