module a0initprobe

go 1.23

require github.com/alttpo/snes v0.0.0

replace github.com/alttpo/snes => /repo
