package main

import (
	"bytes"
	"fmt"
	"io"
	"strings"

	snes "github.com/alttpo/snes"
	"github.com/alttpo/snes/asm"
	"github.com/alttpo/snes/color15"
	"github.com/alttpo/snes/emulator"
	"github.com/alttpo/snes/emulator/bus"
	"github.com/alttpo/snes/emulator/cpu65c816"
	"github.com/alttpo/snes/emulator/cpualt"
	"github.com/alttpo/snes/emulator/memory"
)

// The other areas of the portable probe: small closed-form or differential checks of the rest of the
// library, meant to be run on build targets where the full monitors are too heavy (js/wasm under node).
// Each returns through fail(); a panic inside an area is a finding of that area.

type rng struct{ s uint64 }

func (g *rng) u64() uint64 {
	g.s += 0x9E3779B97F4A7C15
	x := g.s
	x = (x ^ x>>30) * 0xBF58476D1CE4E5B9
	x = (x ^ x>>27) * 0x94D049BB133111EB
	return x ^ x>>31
}
func (g *rng) n(k int) int { return int(g.u64() % uint64(k)) }
func (g *rng) bytes(n int) []byte {
	b := make([]byte, n)
	for i := range b {
		b[i] = byte(g.u64())
	}
	return b
}

func areaColour(fail func(string, ...interface{})) int {
	n := 0
	ratios := [][2]int{{1, 1}, {16, 16}, {31, 31}, {255, 255}, {1, 2}, {3, 2}, {255, 30}, {255, 1}, {0, 7}, {7, 255}, {128, 129}, {200, 100}}
	for c := 0; c < 1<<16; c++ {
		col := color15.Color(c)
		r, g, b := col.ToRGB()
		if int(r) != c&31 || int(g) != c>>5&31 || int(b) != c>>10&31 {
			fail("colour: ToRGB(%#04x)=(%d,%d,%d)", c, r, g, b)
		}
		if back := color15.ToColor15(r, g, b); int(back) != c&0x7FFF {
			fail("colour: ToColor15(ToRGB(%#04x))=%#04x", c, back)
		}
		if l := col.Luminosity(); int(l) != (c&31+c>>5&31+c>>10&31)/3 {
			fail("colour: Luminosity(%#04x)=%d", c, l)
		}
		for _, rt := range ratios {
			want := 0
			for i := uint(0); i < 3; i++ {
				q := (c >> (5 * i) & 31) * rt[0] / rt[1]
				if q > 31 {
					q = 31
				}
				want |= q << (5 * i)
			}
			if got := col.MulDiv(uint8(rt[0]), uint8(rt[1])); int(got) != want {
				fail("colour: Color(%#04x).MulDiv(%d,%d)=%#04x want %#04x", c, rt[0], rt[1], got, want)
			}
			n++
		}
	}
	return n
}

func areaHeader(fail func(string, ...interface{})) int {
	g := &rng{s: 9}
	n := 0
	for i := 0; i < 400; i++ {
		img := g.bytes([]int{0x8000, 0x8123, 0x10000}[i%3])
		switch i % 3 {
		case 0:
			img[0x7FB0+0x2A] = 0x33
		case 1:
			img[0x7FB0+0x24], img[0x7FB0+0x2A] = 0, 1
		default:
			img[0x7FB0+0x24], img[0x7FB0+0x2A] = 0x41, 1
		}
		orig := append([]byte(nil), img...)
		rom, err := snes.NewROM("probe", img)
		if err != nil {
			fail("header: NewROM: %v", err)
			continue
		}
		h := &rom.Header
		raw := orig[0x7FB0:0x8000]
		if want := 3 - i%3; h.HeaderVersion() != want {
			fail("header: version %d want %d", h.HeaderVersion(), want)
		}
		if h.MapMode != raw[0x25] || h.ROMSize != raw[0x27] || h.RAMSize != raw[0x28] || h.CheckSum != uint16(raw[0x2E])|uint16(raw[0x2F])<<8 ||
			h.ComplementCheckSum != uint16(raw[0x2C])|uint16(raw[0x2D])<<8 || h.EmulatedVectors.RESET != uint16(raw[0x4C])|uint16(raw[0x4D])<<8 ||
			h.NativeVectors.NMI != uint16(raw[0x3A])|uint16(raw[0x3B])<<8 {
			fail("header: fields not decoded from their documented offsets (case %d)", i)
		}
		if err := rom.WriteHeader(); err != nil || !bytes.Equal(img, orig) {
			fail("header: read-then-write changed the image (case %d, err %v)", i, err)
		}
		var buf bytes.Buffer
		if err := h.WriteHeader(&buf); err != nil || buf.Len() != 80 {
			fail("header: serialised to %d bytes (err %v)", buf.Len(), err)
		} else {
			var h2 snes.Header
			if err := h2.ReadHeader(bytes.NewReader(buf.Bytes())); err != nil || h2.HeaderVersion() != h.HeaderVersion() || h2.CheckSum != h.CheckSum || h2.Title != h.Title {
				fail("header: serialised header does not parse back (case %d)", i)
			}
		}
		n++
	}
	return n
}

func areaROM(fail func(string, ...interface{})) int {
	g := &rng{s: 10}
	n := 0
	for i := 0; i < 300; i++ {
		nb := 1 + g.n(4)
		img := g.bytes(nb * 0x8000)
		shadow := append([]byte(nil), img...)
		rom, err := snes.NewROM("probe.sfc", img)
		if err != nil {
			fail("rom: NewROM: %v", err)
			continue
		}
		bank := uint32(g.n(nb))
		off := uint32(0x8000 + g.n(0x8000))
		if i%3 == 0 {
			off = 0xFFF0 + uint32(g.n(16))
		}
		lo, hi := int(bank<<15|(off-0x8000)), int(bank<<15)+0x8000
		got, _ := io.ReadAll(rom.BusReader(bank<<16 | off))
		if !bytes.Equal(got, shadow[lo:hi]) && !(len(got) == hi-lo-1 && bytes.Equal(got, shadow[lo:hi-1])) {
			fail("rom: reader at $%06x returned %d bytes, window has %d", bank<<16|off, len(got), hi-lo)
		}
		w := rom.BusWriter(bank<<16 | off)
		cur := lo
		for k := 0; k < 4; k++ {
			p := g.bytes(1 + g.n(hi-lo+2))
			wn, werr := w.Write(p)
			fits := cur+len(p) <= hi
			if (werr == nil) != fits || (werr == nil && wn != len(p)) {
				fail("rom: Write(%d bytes) at window position %d/%d = (%d,%v)", len(p), cur-lo, hi-lo, wn, werr)
				break
			}
			copy(shadow[cur:], p[:wn])
			cur += wn
			if !bytes.Equal(rom.Contents, shadow) {
				fail("rom: a write at $%06x changed bytes other than its own", bank<<16|off)
				break
			}
		}
		if n2, err := rom.BusReader(bank<<16 | 0x1234).Read(make([]byte, 4)); n2 != 0 || err != io.ErrUnexpectedEOF {
			fail("rom: read below $8000 = (%d,%v)", n2, err)
		}
		n++
	}
	return n
}

func areaEmitter(fail func(string, ...interface{})) int {
	g := &rng{s: 11}
	n := 0
	for i := 0; i < 400; i++ {
		base := uint32(g.n(256))<<16 | uint32(0x8000+g.n(0x4000))
		e := asm.NewEmitter(make([]byte, 4096), i%2 == 0)
		e.SetBase(base)
		e.AssumeSEP(0x30)
		var want []byte
		emit := func(b ...byte) { want = append(want, b...) }
		type ref struct {
			at   int
			to   string
			kind int
		}
		var refs []ref
		labels := map[string]int{}
		nl := 0
		for k := 0; k < 40; k++ {
			switch g.n(9) {
			case 0:
				v := byte(g.u64())
				e.LDA_imm8_b(v)
				emit(0xA9, v)
			case 1:
				v := uint16(g.u64())
				e.STA_abs(v)
				emit(0x8D, byte(v), byte(v>>8))
			case 2:
				v := uint32(g.u64()) & 0xFFFFFF
				e.JSL(v)
				emit(0x22, byte(v), byte(v>>8), byte(v>>16))
			case 3:
				e.NOP()
				emit(0xEA)
			case 4:
				d := g.bytes(g.n(40))
				e.EmitBytes(append([]byte(nil), d...))
				emit(d...)
			case 5:
				nl++
				name := fmt.Sprintf("l%d", nl)
				e.Label(name)
				labels[name] = len(want)
			case 6:
				if nl > 0 {
					name := fmt.Sprintf("l%d", 1+g.n(nl))
					if d := labels[name] - (len(want) + 2); d >= -128 {
						e.BNE(name)
						refs = append(refs, ref{len(want) + 1, name, 8})
						emit(0xD0, 0xFF)
					}
				}
			case 7:
				if nl > 0 {
					name := fmt.Sprintf("l%d", 1+g.n(nl))
					e.JMP_abs(name)
					refs = append(refs, ref{len(want) + 1, name, 16})
					emit(0x4C, 0xFF, 0xFF)
				}
			default:
				e.Comment("probe")
			}
		}
		if !bytes.Equal(e.Bytes(), want) || e.Len() != len(want) || e.PC() != base+uint32(len(want)) {
			fail("emitter: emitted bytes/Len/PC differ from the encodings of the calls made (case %d)", i)
			continue
		}
		if err := e.Finalize(); err != nil {
			fail("emitter: Finalize: %v", err)
			continue
		}
		for _, rf := range refs {
			t := labels[rf.to]
			if rf.kind == 8 {
				want[rf.at] = byte(int8(t - (rf.at + 1)))
			} else {
				a := base + uint32(t)
				want[rf.at], want[rf.at+1] = byte(a), byte(a>>8)
			}
		}
		if !bytes.Equal(e.Bytes(), want) {
			fail("emitter: finalized bytes differ from the resolved references (case %d)", i)
		}
		if i%2 == 0 {
			var hx strings.Builder
			if err := e.WriteHexTo(&hx); err != nil {
				fail("emitter: WriteHexTo: %v", err)
			}
			var got []byte
			for _, ln := range strings.Split(hx.String(), "\n") {
				if j := strings.Index(ln, "//"); j >= 0 {
					ln = ln[:j]
				}
				for _, tok := range strings.FieldsFunc(ln, func(r rune) bool { return r == ',' || r == ' ' || r == '\t' }) {
					var v byte
					if _, err := fmt.Sscanf(tok, "0x%02x", &v); err == nil && len(tok) == 4 {
						got = append(got, v)
					}
				}
			}
			if !bytes.Equal(got, want) {
				fail("emitter: hex listing has %d bytes, Bytes() has %d, or they differ (case %d)", len(got), len(want), i)
			}
		}
		n++
	}
	return n
}

type probeMem struct {
	id   int
	last uint32
}

func (m *probeMem) Read(a uint32) byte     { m.last = a; return byte(a) ^ byte(m.id*37) }
func (m *probeMem) Write(a uint32, v byte) { m.last = a }
func (m *probeMem) Shutdown()              {}
func (m *probeMem) Size() uint32           { return 1 << 24 }
func (m *probeMem) Clear()                 {}
func (m *probeMem) Dump(uint32) []byte     { return nil }

func areaBus(fail func(string, ...interface{})) int {
	g := &rng{s: 12}
	n := 0
	for i := 0; i < 60; i++ {
		b, _ := bus.New()
		owner := map[uint32]*probeMem{}
		for k := 0; k < 30; k++ {
			sb := uint32(g.n(1 << 12))
			eb := sb + uint32(g.n(64))
			m := &probeMem{id: k}
			if err := b.Attach(m, "m", sb<<4, eb<<4|15); err != nil {
				fail("bus: aligned Attach refused: %v", err)
				continue
			}
			for x := sb; x <= eb; x++ {
				owner[x] = m
			}
			if b.Attach(m, "m", sb<<4|3, eb<<4|15) == nil {
				fail("bus: misaligned Attach accepted")
			}
		}
		for k := 0; k < 400; k++ {
			a := uint32(g.n(1<<16 + 64))
			m := owner[a>>4]
			var v byte
			pan := func() (p interface{}) { defer func() { p = recover() }(); v = b.EaRead(a); return }()
			if m == nil {
				if pan == nil {
					fail("bus: read of unattached $%06x returned %02x", a, v)
				}
				continue
			}
			if pan != nil || m.last != a || v != byte(a)^byte(m.id*37) {
				fail("bus: read of $%06x not delivered to the memory attached last (panic %v)", a, pan)
			}
			n++
		}
		out := make([]byte, 100)
		for j := range out {
			out[j] = 0xA7
		}
		start := uint32(g.n(1 << 16))
		func() {
			defer func() { recover() }()
			b.EaDump(start, start+99, out)
			for j := range out {
				want := byte(0xA7)
				if m := owner[(start+uint32(j))>>4]; m != nil {
					want = byte(start+uint32(j)) ^ byte(m.id*37)
				}
				if out[j] != want {
					fail("bus: EaDump($%06x,+100) position %d = %02x want %02x", start, j, out[j], want)
					break
				}
			}
		}()
	}
	return n
}

func areaCPU(fail func(string, ...interface{})) int {
	g := &rng{s: 13}
	n := 0
	ram1, ram2 := make([]byte, 1<<24), make([]byte, 1<<24)
	b, _ := bus.New()
	if err := b.Attach(memory.NewRAM(ram1, 0), "ram", 0, 0xFFFFFF); err != nil {
		panic(err)
	}
	alt := new(cpualt.CPU)
	alt.Init()
	alt.Bus.AttachReader(0, 0xFFFFFF, func(a uint32) uint8 { return ram2[a] })
	alt.Bus.AttachWriter(0, 0xFFFFFF, func(a uint32, v uint8) { ram2[a] = v })
	var prim cpu65c816.CPU
	for i := 0; i < 300; i++ {
		prog := g.bytes(96)
		for j := range prog { // no STP/WAI, fewer far jumps
			switch prog[j] {
			case 0xDB, 0xCB, 0x5C, 0x22, 0x6B, 0x40, 0x00, 0x02, 0x54, 0x44:
				prog[j] = 0xEA
			}
		}
		pc := uint32(0x7E0000 + 0x1000 + g.n(0x8000))
		copy(ram1[pc:], prog)
		copy(ram2[pc:], prog)
		prim.Init(b)
		// (one cpualt for the whole area: its register file is reset by hand)
		alt.Stopped, alt.AllCycles, alt.Cycles, alt.WDM, alt.Interrupt, alt.PPC, alt.PRK = false, 0, 0, 0, 0, 0, 0
		alt.E, alt.B = 0, 0
		alt.StepInfo = cpualt.StepInfo{}
		a0, x0, y0 := uint16(g.u64()), uint16(g.u64()), uint16(g.u64())
		p0 := byte(g.u64()) &^ 0x04
		prim.RK, prim.PC, prim.SP, prim.RD, prim.RDBR = 0x7E, uint16(pc), 0x01FF, 0, 0x7E
		alt.RK, alt.PC, alt.SP, alt.RD, alt.RDBR = 0x7E, uint16(pc), 0x01FF, 0, 0x7E
		prim.RA, prim.RX, prim.RY = a0, x0, y0
		alt.RA, alt.RX, alt.RY = a0, x0, y0
		prim.RAl, prim.RAh, prim.RXl, prim.RYl = byte(a0), byte(a0>>8), byte(x0), byte(y0)
		alt.RAl, alt.RAh, alt.RXl, alt.RYl = byte(a0), byte(a0>>8), byte(x0), byte(y0)
		prim.M, prim.X, alt.M, alt.X = 0, 0, 0, 0
		prim.SetFlags(p0)
		alt.SetFlags(p0)
		for step := 0; step < 60; step++ {
			var c1, c2 int
			var s1, s2 bool
			p1 := func() (p interface{}) { defer func() { p = recover() }(); c1, s1 = prim.Step(); return }()
			p2 := func() (p interface{}) { defer func() { p = recover() }(); c2, s2 = alt.Step(); return }()
			if (p1 != nil) != (p2 != nil) {
				fail("cpu: one interpreter failed: %v / %v", p1, p2)
				break
			}
			if p1 != nil {
				break
			}
			if c1 != c2 || s1 != s2 || prim.PC != alt.PC || prim.RK != alt.RK || prim.SP != alt.SP || prim.Flags() != alt.Flags() || prim.RD != alt.RD || prim.RDBR != alt.RDBR || prim.AllCycles != alt.AllCycles {
				fail("cpu: the two interpreters diverge at step %d of program %d (PC %02x:%04x vs %02x:%04x, cycles %d vs %d)", step, i, prim.RK, prim.PC, alt.RK, alt.PC, c1, c2)
				break
			}
			n++
		}
		if !bytes.Equal(ram1[:0x20000], ram2[:0x20000]) || !bytes.Equal(ram1[0x7E0000:0x800000], ram2[0x7E0000:0x800000]) {
			fail("cpu: memory differs after program %d", i)
			copy(ram2, ram1)
		}
	}
	// a traced and an untraced run of the console must end alike
	for i := 0; i < 40; i++ {
		prog := []byte{0xA9, byte(g.u64()), 0xE8, 0xC8, 0x1A, 0x69, byte(g.u64()), 0xEA, 0x80, 0xF6}
		var res [2]string
		for t := 0; t < 2; t++ {
			s := new(emulator.System)
			if err := s.CreateEmulator(); err != nil {
				fail("cpu: CreateEmulator: %v", err)
				return n
			}
			for j, x := range prog {
				s.Bus.EaWrite(0x7E2000+uint32(j), x)
			}
			s.SetPC(0x7E2000)
			var lg bytes.Buffer
			if t == 1 {
				s.Logger = &lg
			}
			ok := s.RunUntil(0x7E2007, uint64(20+g.n(3)*0+i))
			res[t] = fmt.Sprint(ok, s.GetPC(), s.CPU.RA, s.CPU.RX, s.CPU.RY, s.CPU.Flags(), s.CPU.AllCycles)
		}
		if res[0] != res[1] {
			fail("cpu: traced and untraced run differ: %s vs %s", res[1], res[0])
		}
		n++
	}
	return n
}

// coldColour: identities and a few ratios over a stride of the colours.
func coldColour(fail func(string, ...interface{})) int {
	n := 0
	for c := 0; c < 1<<15; c += 37 {
		col := color15.Color(c)
		for _, rt := range [][2]int{{1, 1}, {255, 255}, {7, 255}, {31, 16}, {200, 100}, {128, 129}} {
			want := 0
			for i := uint(0); i < 3; i++ {
				q := (c >> (5 * i) & 31) * rt[0] / rt[1]
				if q > 31 {
					q = 31
				}
				want |= q << (5 * i)
			}
			if got := col.MulDiv(uint8(rt[0]), uint8(rt[1])); int(got) != want {
				fail("colour: Color(%#04x).MulDiv(%d,%d)=%#04x want %#04x", c, rt[0], rt[1], got, want)
			}
			n++
		}
	}
	return n
}
