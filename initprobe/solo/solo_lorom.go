//go:build solo_lorom

package main

import (
	"a0initprobe/laws"

	"github.com/alttpo/snes/mapping/lorom"
)

var only = laws.Mapper{Name: "lorom", B2P: lorom.BusAddressToPak, P2B: lorom.PakAddressToBus}
