//go:build solo_exhirom

package main

import (
	"a0initprobe/laws"

	"github.com/alttpo/snes/mapping/exhirom"
)

var only = laws.Mapper{Name: "exhirom", B2P: exhirom.BusAddressToPak, P2B: exhirom.PakAddressToBus}
