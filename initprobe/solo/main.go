// solo: a program that links exactly one mapper package (chosen by build tag) and checks the mapper
// laws for it. Which other packages of the library a program happens to link must not matter.
package main

import (
	"fmt"
	"os"

	"a0initprobe/laws"
)

func main() {
	bad := 0
	fail := func(f string, a ...interface{}) {
		if bad < 5 {
			fmt.Printf("probe-violation (a program that links only the %s mapper) "+f+"\n", append([]interface{}{only.Name}, a...)...)
		}
		bad++
	}
	n := laws.Check([]laws.Mapper{only}, fail)
	fmt.Printf("probe evaluated=%d violations=%d solo=%s\n", n, bad, only.Name)
	if bad > 0 {
		os.Exit(1)
	}
}
