//go:build solo_hirom

package main

import (
	"a0initprobe/laws"

	"github.com/alttpo/snes/mapping/hirom"
)

var only = laws.Mapper{Name: "hirom", B2P: hirom.BusAddressToPak, P2B: hirom.PakAddressToBus}
