//go:build solo_sa1rom

package main

import (
	"a0initprobe/laws"

	"github.com/alttpo/snes/mapping/sa1rom"
)

var only = laws.Mapper{Name: "sa1rom", B2P: sa1rom.BusAddressToPak, P2B: sa1rom.PakAddressToBus}
