// initprobe: a program in which one mapper is used during package initialisation (by a package that
// imports only that mapper), before the other mapper packages are initialised. main then checks the
// inverse laws and the class windows of all four mappers on a sample of the address space.
// Exit 0: held; exit 1: a line "probe-violation ..." per finding.
package main

import (
	"fmt"
	"os"

	"a0initprobe/early"
	"a0initprobe/laws"

	"github.com/alttpo/snes/mapping/exhirom"
	"github.com/alttpo/snes/mapping/hirom"
	"github.com/alttpo/snes/mapping/lorom"
	"github.com/alttpo/snes/mapping/sa1rom"
)

type mapper struct {
	name string
	b2p  func(uint32) (uint32, error)
	p2b  func(uint32) (uint32, error)
}

func main() {
	area := "mappers"
	if len(os.Args) > 1 {
		area = os.Args[1]
	}
	if area == "coldstart" {
		// the smallest useful sample, for being started thousands of times: whatever a process decides once
		// at start-up (map iteration order in an initialiser, a random seed, an address) is drawn again
		bad := 0
		fail := func(f string, a ...interface{}) {
			if bad < 5 {
				fmt.Printf("probe-violation (one of many identical cold starts) "+f+"\n", a...)
			}
			bad++
		}
		n := laws.Pages([]laws.Mapper{{Name: "lorom", B2P: lorom.BusAddressToPak, P2B: lorom.PakAddressToBus}, {Name: "hirom", B2P: hirom.BusAddressToPak, P2B: hirom.PakAddressToBus},
			{Name: "exhirom", B2P: exhirom.BusAddressToPak, P2B: exhirom.PakAddressToBus}, {Name: "sa1rom", B2P: sa1rom.BusAddressToPak, P2B: sa1rom.PakAddressToBus}}, fail)
		n += coldColour(fail)
		if bad > 0 {
			fmt.Printf("probe area=coldstart evaluated=%d violations=%d\n", n, bad)
			os.Exit(1)
		}
		return
	}
	if area != "mappers" {
		bad := 0
		fail := func(f string, a ...interface{}) {
			if bad < 5 {
				fmt.Printf("probe-violation "+f+"\n", a...)
			}
			bad++
		}
		areas := map[string]func(func(string, ...interface{})) int{"colour": areaColour, "header": areaHeader, "rom": areaROM, "emitter": areaEmitter, "bus": areaBus, "cpu": areaCPU}
		fn, ok := areas[area]
		if !ok {
			fmt.Println("unknown area", area)
			os.Exit(2)
		}
		n := 0
		func() {
			defer func() {
				if e := recover(); e != nil {
					fail("%s: failed with %v", area, e)
				}
			}()
			n = fn(fail)
		}()
		fmt.Printf("probe area=%s evaluated=%d violations=%d\n", area, n, bad)
		if bad > 0 {
			os.Exit(1)
		}
		return
	}
	ms := []mapper{{"lorom", lorom.BusAddressToPak, lorom.PakAddressToBus}, {"hirom", hirom.BusAddressToPak, hirom.PakAddressToBus},
		{"exhirom", exhirom.BusAddressToPak, exhirom.PakAddressToBus}, {"sa1rom", sa1rom.BusAddressToPak, sa1rom.PakAddressToBus}}
	bad, n := 0, 0
	fail := func(f string, a ...interface{}) {
		if bad < 5 {
			fmt.Printf("probe-violation (mapper used at init time: %s) "+f+"\n", append([]interface{}{early.Touched}, a...)...)
		}
		bad++
	}
	var lm []laws.Mapper
	for _, m := range ms {
		lm = append(lm, laws.Mapper{Name: m.name, B2P: m.b2p, P2B: m.p2b})
	}
	n = laws.Check(lm, fail)
	fmt.Printf("probe evaluated=%d violations=%d early=%s\n", n, bad, early.Touched)
	if bad > 0 {
		os.Exit(1)
	}
}
