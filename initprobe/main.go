// initprobe: a program in which one mapper is used during package initialisation (by a package that
// imports only that mapper), before the other mapper packages are initialised. main then checks the
// inverse laws and the class windows of all four mappers on a sample of the address space.
// Exit 0: held; exit 1: a line "probe-violation ..." per finding.
package main

import (
	"fmt"
	"os"

	"a0initprobe/early"

	"github.com/alttpo/snes/mapping/exhirom"
	"github.com/alttpo/snes/mapping/hirom"
	"github.com/alttpo/snes/mapping/lorom"
	"github.com/alttpo/snes/mapping/sa1rom"
)

type mapper struct {
	name string
	b2p  func(uint32) (uint32, error)
	p2b  func(uint32) (uint32, error)
}

func class(p uint32) string {
	switch {
	case p < 0xE00000:
		return "rom"
	case p < 0xF00000:
		return "sram"
	case p >= 0xF50000:
		return "wram"
	}
	return "none"
}

func main() {
	area := "mappers"
	if len(os.Args) > 1 {
		area = os.Args[1]
	}
	if area != "mappers" {
		bad := 0
		fail := func(f string, a ...interface{}) {
			if bad < 5 {
				fmt.Printf("probe-violation "+f+"\n", a...)
			}
			bad++
		}
		areas := map[string]func(func(string, ...interface{})) int{"colour": areaColour, "header": areaHeader, "rom": areaROM, "emitter": areaEmitter, "bus": areaBus, "cpu": areaCPU}
		fn, ok := areas[area]
		if !ok {
			fmt.Println("unknown area", area)
			os.Exit(2)
		}
		n := 0
		func() {
			defer func() {
				if e := recover(); e != nil {
					fail("%s: failed with %v", area, e)
				}
			}()
			n = fn(fail)
		}()
		fmt.Printf("probe area=%s evaluated=%d violations=%d\n", area, n, bad)
		if bad > 0 {
			os.Exit(1)
		}
		return
	}
	ms := []mapper{{"lorom", lorom.BusAddressToPak, lorom.PakAddressToBus}, {"hirom", hirom.BusAddressToPak, hirom.PakAddressToBus},
		{"exhirom", exhirom.BusAddressToPak, exhirom.PakAddressToBus}, {"sa1rom", sa1rom.BusAddressToPak, sa1rom.PakAddressToBus}}
	bad, n := 0, 0
	fail := func(f string, a ...interface{}) {
		if bad < 5 {
			fmt.Printf("probe-violation (mapper used at init time: %s) "+f+"\n", append([]interface{}{early.Touched}, a...)...)
		}
		bad++
	}
	offs := []uint32{0, 0x1FFF, 0x2000, 0x5FFF, 0x6000, 0x7FFF, 0x8000, 0xFFFF, 0x1234, 0x9ABC, 0xE000, 0xDFFF}
	for _, m := range ms {
		for bank := uint32(0); bank < 256; bank++ {
			for _, off := range offs {
				a := bank<<16 | off
				n++
				if pan := func() (p interface{}) {
					defer func() { p = recover() }()
					_, _ = m.b2p(a)
					_, _ = m.p2b(a)
					return nil
				}(); pan != nil {
					fail("%s: a call with $%06x failed: %v", m.name, a, pan)
					continue
				}
				if p, err := m.b2p(a); err == nil {
					if class(p) == "none" {
						fail("%s: B2P($%06x)=$%06x outside every class window", m.name, a, p)
					}
					b2, err2 := m.p2b(p)
					if err2 != nil {
						fail("%s: B2P($%06x)=$%06x but P2B of that fails: %v", m.name, a, p, err2)
					} else if p2, err3 := m.b2p(b2); err3 != nil || p2 != p {
						fail("%s: B2P($%06x)=$%06x, P2B=$%06x, B2P again=($%06x,%v)", m.name, a, p, b2, p2, err3)
					}
				}
				if b, err := m.p2b(a); err == nil {
					q, qerr := m.b2p(b)
					if qerr != nil {
						fail("%s: P2B($%06x)=$%06x which B2P does not map", m.name, a, b)
					} else if class(q) != class(a) && !(class(a) == "wram" && class(q) == "wram") {
						fail("%s: P2B($%06x)=$%06x designates %s, want %s", m.name, a, b, class(q), class(a))
					} else if q&0x1FFF != a&0x1FFF {
						fail("%s: P2B($%06x)=$%06x -> $%06x: offset within the 8 KiB page changed", m.name, a, b, q)
					}
				} else if class(a) != "none" {
					fail("%s: P2B($%06x) rejected although the address lies in the %s window", m.name, a, class(a))
				}
			}
		}
	}
	fmt.Printf("probe evaluated=%d violations=%d early=%s\n", n, bad, early.Touched)
	if bad > 0 {
		os.Exit(1)
	}
}
