// Package ref is an independent instruction-level model of the WDC 65C816
// programming model, native mode (E=0) only.  Written from the WDC data sheet /
// "Programming the 65816" rules; shares no code or tables with the repo.
package ref

import "fmt"

type Mem interface {
	Rd(a uint32) byte
	Wr(a uint32, v byte)
}

// P bits
const (
	fC = 1 << iota
	fZ
	fI
	fD
	fX
	fM
	fV
	fN
)

type State struct {
	A, X, Y, S, D, PC uint16
	DBR, K, P         byte
	E                 bool
	Stopped           bool
	WDM               byte
	WDMSeen           bool
}

func (s State) String() string {
	return fmt.Sprintf("A=%04x X=%04x Y=%04x S=%04x D=%04x DBR=%02x K=%02x PC=%04x P=%02x E=%v stp=%v",
		s.A, s.X, s.Y, s.S, s.D, s.DBR, s.K, s.PC, s.P, s.E, s.Stopped)
}

type Mnem int

const (
	ADC Mnem = iota
	AND
	ASL
	BCC
	BCS
	BEQ
	BIT
	BMI
	BNE
	BPL
	BRA
	BRK
	BRL
	BVC
	BVS
	CLC
	CLD
	CLI
	CLV
	CMP
	COP
	CPX
	CPY
	DEC
	DEX
	DEY
	EOR
	INC
	INX
	INY
	JML
	JMP
	JSL
	JSR
	LDA
	LDX
	LDY
	LSR
	MVN
	MVP
	NOP
	ORA
	PEA
	PEI
	PER
	PHA
	PHB
	PHD
	PHK
	PHP
	PHX
	PHY
	PLA
	PLB
	PLD
	PLP
	PLX
	PLY
	REP
	ROL
	ROR
	RTI
	RTL
	RTS
	SBC
	SEC
	SED
	SEI
	SEP
	STA
	STP
	STX
	STY
	STZ
	TAX
	TAY
	TCD
	TCS
	TDC
	TRB
	TSB
	TSC
	TSX
	TXA
	TXS
	TXY
	TYA
	TYX
	WAI
	WDM
	XBA
	XCE
	NMnem
)

var MnemNames = [...]string{"adc", "and", "asl", "bcc", "bcs", "beq", "bit", "bmi", "bne", "bpl", "bra", "brk", "brl", "bvc", "bvs", "clc", "cld", "cli", "clv", "cmp", "cop", "cpx", "cpy", "dec", "dex", "dey", "eor", "inc", "inx", "iny", "jml", "jmp", "jsl", "jsr", "lda", "ldx", "ldy", "lsr", "mvn", "mvp", "nop", "ora", "pea", "pei", "per", "pha", "phb", "phd", "phk", "php", "phx", "phy", "pla", "plb", "pld", "plp", "plx", "ply", "rep", "rol", "ror", "rti", "rtl", "rts", "sbc", "sec", "sed", "sei", "sep", "sta", "stp", "stx", "sty", "stz", "tax", "tay", "tcd", "tcs", "tdc", "trb", "tsb", "tsc", "tsx", "txa", "txs", "txy", "tya", "tyx", "wai", "wdm", "xba", "xce"}

type Mode int

const (
	Imp   Mode = iota // implied / stack / none
	Acc               // A
	ImmM              // #imm, size by M
	ImmX              // #imm, size by X
	Imm8              // #imm8 (REP/SEP/COP/WDM/BRK signature)
	Imm16             // PEA
	Dp
	DpX
	DpY
	DpInd   // (dp)
	DpIndX  // (dp,X)
	DpIndY  // (dp),Y
	DpIndL  // [dp]
	DpIndLY // [dp],Y
	Abs     // abs
	AbsX    // abs,X
	AbsY    // abs,Y
	AbsL    // long
	AbsLX   // long,X
	AbsInd  // (abs)
	AbsIndX // (abs,X)
	AbsIndL // [abs]
	Rel8    // rel8
	Rel16   // rel16
	Sr      // sr,S
	SrIndY  // (sr,S),Y
	BlockMv // dst,src
	NMode
)

var ModeNames = [...]string{"imp", "acc", "immM", "immX", "imm8", "imm16", "dp", "dp,X", "dp,Y", "(dp)", "(dp,X)", "(dp),Y", "[dp]", "[dp],Y", "abs", "abs,X", "abs,Y", "long", "long,X", "(abs)", "(abs,X)", "[abs]", "rel8", "rel16", "sr,S", "(sr,S),Y", "blk"}

type Op struct {
	M    Mnem
	Mode Mode
	set  bool
}

var Table [256]Op

func def(op int, m Mnem, mode Mode) {
	if Table[op].set {
		panic(fmt.Sprintf("opcode %02x defined twice", op))
	}
	Table[op] = Op{m, mode, true}
}

func init() {
	// the eight "group one" ALU ops share one column layout
	g1 := []struct {
		base int
		m    Mnem
	}{{0x00, ORA}, {0x20, AND}, {0x40, EOR}, {0x60, ADC}, {0x80, STA}, {0xA0, LDA}, {0xC0, CMP}, {0xE0, SBC}}
	for _, g := range g1 {
		def(g.base+0x01, g.m, DpIndX)
		def(g.base+0x03, g.m, Sr)
		def(g.base+0x05, g.m, Dp)
		def(g.base+0x07, g.m, DpIndL)
		if g.m != STA {
			def(g.base+0x09, g.m, ImmM)
		}
		def(g.base+0x0D, g.m, Abs)
		def(g.base+0x0F, g.m, AbsL)
		def(g.base+0x11, g.m, DpIndY)
		def(g.base+0x12, g.m, DpInd)
		def(g.base+0x13, g.m, SrIndY)
		def(g.base+0x15, g.m, DpX)
		def(g.base+0x17, g.m, DpIndLY)
		def(g.base+0x19, g.m, AbsY)
		def(g.base+0x1D, g.m, AbsX)
		def(g.base+0x1F, g.m, AbsLX)
	}
	def(0x89, BIT, ImmM)
	// shifts / rotates
	for _, g := range []struct {
		base int
		m    Mnem
	}{{0x00, ASL}, {0x20, ROL}, {0x40, LSR}, {0x60, ROR}} {
		def(g.base+0x06, g.m, Dp)
		def(g.base+0x0A, g.m, Acc)
		def(g.base+0x0E, g.m, Abs)
		def(g.base+0x16, g.m, DpX)
		def(g.base+0x1E, g.m, AbsX)
	}
	def(0xE6, INC, Dp)
	def(0xEE, INC, Abs)
	def(0xF6, INC, DpX)
	def(0xFE, INC, AbsX)
	def(0x1A, INC, Acc)
	def(0xC6, DEC, Dp)
	def(0xCE, DEC, Abs)
	def(0xD6, DEC, DpX)
	def(0xDE, DEC, AbsX)
	def(0x3A, DEC, Acc)
	def(0x86, STX, Dp)
	def(0x8E, STX, Abs)
	def(0x96, STX, DpY)
	def(0x84, STY, Dp)
	def(0x8C, STY, Abs)
	def(0x94, STY, DpX)
	def(0x64, STZ, Dp)
	def(0x74, STZ, DpX)
	def(0x9C, STZ, Abs)
	def(0x9E, STZ, AbsX)
	def(0xA2, LDX, ImmX)
	def(0xA6, LDX, Dp)
	def(0xAE, LDX, Abs)
	def(0xB6, LDX, DpY)
	def(0xBE, LDX, AbsY)
	def(0xA0, LDY, ImmX)
	def(0xA4, LDY, Dp)
	def(0xAC, LDY, Abs)
	def(0xB4, LDY, DpX)
	def(0xBC, LDY, AbsX)
	def(0xE0, CPX, ImmX)
	def(0xE4, CPX, Dp)
	def(0xEC, CPX, Abs)
	def(0xC0, CPY, ImmX)
	def(0xC4, CPY, Dp)
	def(0xCC, CPY, Abs)
	def(0x24, BIT, Dp)
	def(0x2C, BIT, Abs)
	def(0x34, BIT, DpX)
	def(0x3C, BIT, AbsX)
	def(0x04, TSB, Dp)
	def(0x0C, TSB, Abs)
	def(0x14, TRB, Dp)
	def(0x1C, TRB, Abs)
	def(0x10, BPL, Rel8)
	def(0x30, BMI, Rel8)
	def(0x50, BVC, Rel8)
	def(0x70, BVS, Rel8)
	def(0x90, BCC, Rel8)
	def(0xB0, BCS, Rel8)
	def(0xD0, BNE, Rel8)
	def(0xF0, BEQ, Rel8)
	def(0x80, BRA, Rel8)
	def(0x82, BRL, Rel16)
	def(0x4C, JMP, Abs)
	def(0x5C, JML, AbsL)
	def(0x6C, JMP, AbsInd)
	def(0x7C, JMP, AbsIndX)
	def(0xDC, JML, AbsIndL)
	def(0x20, JSR, Abs)
	def(0xFC, JSR, AbsIndX)
	def(0x22, JSL, AbsL)
	def(0x60, RTS, Imp)
	def(0x6B, RTL, Imp)
	def(0x40, RTI, Imp)
	def(0x00, BRK, Imm8)
	def(0x02, COP, Imm8)
	def(0x42, WDM, Imm8)
	def(0x08, PHP, Imp)
	def(0x28, PLP, Imp)
	def(0x48, PHA, Imp)
	def(0x68, PLA, Imp)
	def(0x5A, PHY, Imp)
	def(0x7A, PLY, Imp)
	def(0xDA, PHX, Imp)
	def(0xFA, PLX, Imp)
	def(0x0B, PHD, Imp)
	def(0x2B, PLD, Imp)
	def(0x4B, PHK, Imp)
	def(0x8B, PHB, Imp)
	def(0xAB, PLB, Imp)
	def(0xF4, PEA, Imm16)
	def(0xD4, PEI, Dp)
	def(0x62, PER, Rel16)
	def(0x18, CLC, Imp)
	def(0x38, SEC, Imp)
	def(0x58, CLI, Imp)
	def(0x78, SEI, Imp)
	def(0xB8, CLV, Imp)
	def(0xD8, CLD, Imp)
	def(0xF8, SED, Imp)
	def(0xC2, REP, Imm8)
	def(0xE2, SEP, Imm8)
	def(0xFB, XCE, Imp)
	def(0x1B, TCS, Imp)
	def(0x3B, TSC, Imp)
	def(0x5B, TCD, Imp)
	def(0x7B, TDC, Imp)
	def(0x8A, TXA, Imp)
	def(0x98, TYA, Imp)
	def(0x9A, TXS, Imp)
	def(0x9B, TXY, Imp)
	def(0xA8, TAY, Imp)
	def(0xAA, TAX, Imp)
	def(0xBA, TSX, Imp)
	def(0xBB, TYX, Imp)
	def(0xE8, INX, Imp)
	def(0xC8, INY, Imp)
	def(0xCA, DEX, Imp)
	def(0x88, DEY, Imp)
	def(0xEA, NOP, Imp)
	def(0xEB, XBA, Imp)
	def(0xCB, WAI, Imp)
	def(0xDB, STP, Imp)
	def(0x44, MVP, BlockMv)
	def(0x54, MVN, BlockMv)
	for i := range Table {
		if !Table[i].set {
			panic(fmt.Sprintf("opcode %02x undefined", i))
		}
	}
}

// Len returns the architectural instruction length for opcode under P.
func Len(op byte, p byte) int {
	switch Table[op].Mode {
	case Imp, Acc:
		return 1
	case ImmM:
		if p&fM != 0 {
			return 2
		}
		return 3
	case ImmX:
		if p&fX != 0 {
			return 2
		}
		return 3
	case Imm8, Dp, DpX, DpY, DpInd, DpIndX, DpIndY, DpIndL, DpIndLY, Rel8, Sr, SrIndY:
		if op == 0x00 { // BRK: 1 byte opcode + signature; PC+2 pushed
			return 2
		}
		return 2
	case Imm16, Abs, AbsX, AbsY, AbsInd, AbsIndX, AbsIndL, Rel16, BlockMv:
		return 3
	case AbsL, AbsLX:
		return 4
	}
	panic("len")
}

type cpu struct {
	State
	m  Mem
	ev uint32
}

// coverage events reported by Step (bitset in Info.Ev)
const (
	EvOperandWrap    = 1 << iota // operand bytes wrapped inside bank K
	EvDpWrap                     // D + dp (+ index) overflowed 16 bits
	EvBank0DataWrap              // 16-bit datum in bank 0 at $FFFF: high byte from $0000
	EvPtrWrap                    // pointer bytes wrapped at the end of their bank
	EvIndexBankCarry             // DBR:base + index carried into the next bank
	EvEA24Overflow               // effective address exceeded $FFFFFF before masking
	EvDataBankCross              // 16-bit datum straddles two banks
	EvData24Wrap                 // 16-bit datum at $FFFFFF: high byte from $000000
	EvStackWrap                  // S wrapped through $0000/$FFFF
	EvWidthChange                // M or X changed
	EvXHighCleared               // X went 0->1 with a non-zero high byte in X or Y
	EvBlockRepeat                // MVN/MVP re-executes
	EvBranchTaken
	EvBranchBackward
	EvDecimal
	EvData16 // a 16-bit data access happened
	NEvents  = 16
)

var EvNames = [...]string{"operand-wrap", "dp-wrap", "bank0-data-wrap", "ptr-wrap", "index-bank-carry", "ea24-overflow", "data-bank-cross", "data24-wrap", "stack-wrap", "width-change", "xhigh-cleared", "block-repeat", "branch-taken", "branch-backward", "decimal", "data16"}

func (c *cpu) m8() bool { return c.P&fM != 0 }
func (c *cpu) x8() bool { return c.P&fX != 0 }

func (c *cpu) rd(a uint32) byte     { return c.m.Rd(a & 0xFFFFFF) }
func (c *cpu) wr(a uint32, v byte)  { c.m.Wr(a&0xFFFFFF, v) }
func (c *cpu) rd0(a uint16) byte    { return c.m.Rd(uint32(a)) }
func (c *cpu) wr0(a uint16, v byte) { c.m.Wr(uint32(a), v) }

// program-bank fetch, wraps inside bank K
func (c *cpu) pb(off uint16) byte { return c.m.Rd(uint32(c.K)<<16 | uint32(c.PC+off)) }

func (c *cpu) push(v byte) {
	c.wr0(c.S, v)
	if c.S == 0 {
		c.ev |= EvStackWrap
	}
	c.S--
}
func (c *cpu) pull() byte {
	if c.S == 0xFFFF {
		c.ev |= EvStackWrap
	}
	c.S++
	return c.rd0(c.S)
}
func (c *cpu) push16(v uint16) {
	c.push(byte(v >> 8))
	c.push(byte(v))
}
func (c *cpu) pull16() uint16 {
	lo := c.pull()
	hi := c.pull()
	return uint16(hi)<<8 | uint16(lo)
}

func (c *cpu) setP(p byte) {
	if (c.P^p)&(fM|fX) != 0 {
		c.ev |= EvWidthChange
	}
	c.P = p
	if c.P&fX != 0 {
		if c.X > 0xFF || c.Y > 0xFF {
			c.ev |= EvXHighCleared
		}
		c.X &= 0xFF
		c.Y &= 0xFF
	}
}

func (c *cpu) nz8(v byte) {
	c.P &^= fN | fZ
	if v == 0 {
		c.P |= fZ
	}
	if v&0x80 != 0 {
		c.P |= fN
	}
}
func (c *cpu) nz16(v uint16) {
	c.P &^= fN | fZ
	if v == 0 {
		c.P |= fZ
	}
	if v&0x8000 != 0 {
		c.P |= fN
	}
}
func (c *cpu) flag(f byte, on bool) {
	if on {
		c.P |= f
	} else {
		c.P &^= f
	}
}

// operand location: either a 24-bit address with a rule for the second byte,
// or the accumulator.
type loc struct {
	acc bool
	a0  uint32 // first byte
	a1  uint32 // second byte (already wrapped according to the mode's rule)
}

func bank0(a uint16) loc { return loc{a0: uint32(a), a1: uint32(a + 1)} }
func lin(a uint32) loc   { a &= 0xFFFFFF; return loc{a0: a, a1: (a + 1) & 0xFFFFFF} }

func (c *cpu) ptr16(a uint16) uint16 { // 16-bit pointer in bank 0, wrapping in bank 0
	if a == 0xFFFF {
		c.ev |= EvPtrWrap
	}
	return uint16(c.rd0(a)) | uint16(c.rd0(a+1))<<8
}
func (c *cpu) ptr24(a uint16) uint32 {
	if a >= 0xFFFE {
		c.ev |= EvPtrWrap
	}
	return uint32(c.rd0(a)) | uint32(c.rd0(a+1))<<8 | uint32(c.rd0(a+2))<<16
}

func (c *cpu) idxX() uint32 { return uint32(c.X) }
func (c *cpu) idxY() uint32 { return uint32(c.Y) }

// resolve data operand location for data-access modes
func (c *cpu) locate(mode Mode) loc {
	o1 := c.pb(1)
	o16 := uint16(o1) | uint16(c.pb(2))<<8
	o24 := uint32(o16) | uint32(c.pb(3))<<16
	dbr := uint32(c.DBR) << 16
	dp := func(idx uint16) uint16 {
		if uint32(c.D)+uint32(o1)+uint32(idx) > 0xFFFF {
			c.ev |= EvDpWrap
		}
		return c.D + uint16(o1) + idx
	}
	sum := func(base, idx uint32) uint32 {
		r := base + idx
		if r>>16 != base>>16 {
			c.ev |= EvIndexBankCarry
		}
		if r > 0xFFFFFF {
			c.ev |= EvEA24Overflow
		}
		return r
	}
	switch mode {
	case Acc:
		return loc{acc: true}
	case ImmM, ImmX, Imm8, Imm16:
		return loc{a0: uint32(c.K)<<16 | uint32(c.PC+1), a1: uint32(c.K)<<16 | uint32(c.PC+2)}
	case Dp:
		return bank0(dp(0))
	case DpX:
		return bank0(dp(c.X))
	case DpY:
		return bank0(dp(c.Y))
	case DpInd:
		return lin(dbr | uint32(c.ptr16(dp(0))))
	case DpIndX:
		return lin(dbr | uint32(c.ptr16(dp(c.X))))
	case DpIndY:
		return lin(sum(dbr|uint32(c.ptr16(dp(0))), c.idxY()))
	case DpIndL:
		return lin(c.ptr24(dp(0)))
	case DpIndLY:
		return lin(sum(c.ptr24(dp(0)), c.idxY()))
	case Abs:
		return lin(dbr | uint32(o16))
	case AbsX:
		return lin(sum(dbr|uint32(o16), c.idxX()))
	case AbsY:
		return lin(sum(dbr|uint32(o16), c.idxY()))
	case AbsL:
		return lin(o24)
	case AbsLX:
		return lin(sum(o24, c.idxX()))
	case Sr:
		if uint32(c.S)+uint32(o1) > 0xFFFF {
			c.ev |= EvDpWrap
		}
		return bank0(c.S + uint16(o1))
	case SrIndY:
		if uint32(c.S)+uint32(o1) > 0xFFFF {
			c.ev |= EvDpWrap
		}
		return lin(sum(dbr|uint32(c.ptr16(c.S+uint16(o1))), c.idxY()))
	}
	panic(fmt.Sprintf("locate: mode %d", mode))
}

func (c *cpu) ld8(l loc) byte {
	if l.acc {
		return byte(c.A)
	}
	return c.m.Rd(l.a0)
}
func (c *cpu) ev16(l loc) {
	c.ev |= EvData16
	switch {
	case l.a0 == 0xFFFFFF:
		c.ev |= EvData24Wrap
	case l.a0&0xFFFF == 0xFFFF && l.a1 == l.a0+1:
		c.ev |= EvDataBankCross
	case l.a0&0xFFFF == 0xFFFF:
		c.ev |= EvBank0DataWrap
	}
}
func (c *cpu) ld16(l loc) uint16 {
	if l.acc {
		return c.A
	}
	c.ev16(l)
	return uint16(c.m.Rd(l.a0)) | uint16(c.m.Rd(l.a1))<<8
}
func (c *cpu) st8(l loc, v byte) {
	if l.acc {
		c.A = c.A&0xFF00 | uint16(v)
		return
	}
	c.m.Wr(l.a0, v)
}
func (c *cpu) st16(l loc, v uint16) {
	if l.acc {
		c.A = v
		return
	}
	c.ev16(l)
	c.m.Wr(l.a0, byte(v))
	c.m.Wr(l.a1, byte(v>>8))
}

func bcdOK8(v byte) bool    { return v&0x0F <= 9 && v>>4 <= 9 }
func bcdOK16(v uint16) bool { return bcdOK8(byte(v)) && bcdOK8(byte(v>>8)) }

// DecimalDefined reports whether the last ADC/SBC executed in decimal mode had
// operands for which the programming model defines the result (valid BCD).
type Info struct {
	Op         byte
	M          Mnem
	Mode       Mode
	Decimal    bool // ADC/SBC executed with D=1
	DecimalBCD bool // ... and both operands were valid BCD
	LeftNative bool // XCE switched to emulation mode
	Len        int
	Ev         uint32 // coverage events (Ev* bits)
}

func (c *cpu) adc(l loc, inf *Info) {
	dec := c.P&fD != 0
	cin := uint32(c.P & fC)
	if c.m8() {
		a := uint32(byte(c.A))
		d := uint32(c.ld8(l))
		var r uint32
		if !dec {
			r = a + d + cin
		} else {
			inf.Decimal = true
			inf.DecimalBCD = bcdOK8(byte(a)) && bcdOK8(byte(d))
			r = (a & 0x0F) + (d & 0x0F) + cin
			if r > 0x09 {
				r += 0x06
			}
			cc := uint32(0)
			if r > 0x0F {
				cc = 1
			}
			r = (a & 0xF0) + (d & 0xF0) + (cc << 4) + (r & 0x0F)
		}
		c.flag(fV, ^(a^d)&(a^r)&0x80 != 0)
		if dec && r > 0x9F {
			r += 0x60
		}
		c.flag(fC, r > 0xFF)
		c.A = c.A&0xFF00 | uint16(byte(r))
		c.nz8(byte(r))
	} else {
		a := uint32(c.A)
		d := uint32(c.ld16(l))
		var r uint32
		if !dec {
			r = a + d + cin
		} else {
			inf.Decimal = true
			inf.DecimalBCD = bcdOK16(uint16(a)) && bcdOK16(uint16(d))
			r = (a & 0x000F) + (d & 0x000F) + cin
			if r > 0x0009 {
				r += 0x0006
			}
			cc := uint32(0)
			if r > 0x000F {
				cc = 1
			}
			r = (a & 0x00F0) + (d & 0x00F0) + (cc << 4) + (r & 0x000F)
			if r > 0x009F {
				r += 0x0060
			}
			cc = 0
			if r > 0x00FF {
				cc = 1
			}
			r = (a & 0x0F00) + (d & 0x0F00) + (cc << 8) + (r & 0x00FF)
			if r > 0x09FF {
				r += 0x0600
			}
			cc = 0
			if r > 0x0FFF {
				cc = 1
			}
			r = (a & 0xF000) + (d & 0xF000) + (cc << 12) + (r & 0x0FFF)
		}
		c.flag(fV, ^(a^d)&(a^r)&0x8000 != 0)
		if dec && r > 0x9FFF {
			r += 0x6000
		}
		c.flag(fC, r > 0xFFFF)
		c.A = uint16(r)
		c.nz16(uint16(r))
	}
}

func (c *cpu) sbc(l loc, inf *Info) {
	dec := c.P&fD != 0
	cin := int32(c.P & fC)
	if c.m8() {
		a := int32(byte(c.A))
		d0 := c.ld8(l)
		d := int32(d0 ^ 0xFF)
		var r int32
		if !dec {
			r = a + d + cin
		} else {
			inf.Decimal = true
			inf.DecimalBCD = bcdOK8(byte(a)) && bcdOK8(d0)
			r = (a & 0x0F) + (d & 0x0F) + cin
			if r <= 0x0F {
				r -= 0x06
			}
			cc := int32(0)
			if r > 0x0F {
				cc = 1
			}
			r = (a & 0xF0) + (d & 0xF0) + (cc << 4) + (r & 0x0F)
		}
		c.flag(fV, ^(a^d)&(a^r)&0x80 != 0)
		if dec && r <= 0xFF {
			r -= 0x60
		}
		c.flag(fC, r > 0xFF)
		c.A = c.A&0xFF00 | uint16(byte(r))
		c.nz8(byte(r))
	} else {
		a := int32(c.A)
		d0 := c.ld16(l)
		d := int32(d0 ^ 0xFFFF)
		var r int32
		if !dec {
			r = a + d + cin
		} else {
			inf.Decimal = true
			inf.DecimalBCD = bcdOK16(uint16(a)) && bcdOK16(d0)
			r = (a & 0x000F) + (d & 0x000F) + cin
			if r <= 0x000F {
				r -= 0x0006
			}
			cc := int32(0)
			if r > 0x000F {
				cc = 1
			}
			r = (a & 0x00F0) + (d & 0x00F0) + (cc << 4) + (r & 0x000F)
			if r <= 0x00FF {
				r -= 0x0060
			}
			cc = 0
			if r > 0x00FF {
				cc = 1
			}
			r = (a & 0x0F00) + (d & 0x0F00) + (cc << 8) + (r & 0x00FF)
			if r <= 0x0FFF {
				r -= 0x0600
			}
			cc = 0
			if r > 0x0FFF {
				cc = 1
			}
			r = (a & 0xF000) + (d & 0xF000) + (cc << 12) + (r & 0x0FFF)
		}
		c.flag(fV, ^(a^d)&(a^r)&0x8000 != 0)
		if dec && r <= 0xFFFF {
			r -= 0x6000
		}
		c.flag(fC, r > 0xFFFF)
		c.A = uint16(r)
		c.nz16(uint16(r))
	}
}

func (c *cpu) branch(cond bool) {
	off := int8(c.pb(1))
	c.PC += 2
	if cond {
		c.ev |= EvBranchTaken
		if off < 0 {
			c.ev |= EvBranchBackward
		}
		c.PC += uint16(int16(off))
	}
}

func (c *cpu) interrupt(vec uint16) {
	c.push(c.K)
	c.push16(c.PC + 2)
	c.push(c.P)
	c.P |= fI
	c.P &^= fD
	c.K = 0
	c.PC = uint16(c.rd0(vec)) | uint16(c.rd0(vec+1))<<8
}

// EnterIRQ performs the native-mode hardware interrupt sequence of a maskable interrupt request (the
// caller checks that I is clear): K, PC and P are pushed, I set, D cleared, K zeroed and PC loaded from
// $00FFEE. The handler's first instruction is a Step of its own.
func EnterIRQ(st *State, m Mem) {
	if st.E {
		panic("ref: emulation mode not modelled")
	}
	c := &cpu{State: *st, m: m}
	c.push(c.K)
	c.push16(c.PC)
	c.push(c.P)
	c.P |= fI
	c.P &^= fD
	c.K = 0
	c.PC = uint16(c.rd0(0xFFEE)) | uint16(c.rd0(0xFFEF))<<8
	*st = c.State
}

// Step executes one instruction (one byte of a block move) on st/m.
func Step(st *State, m Mem) Info {
	if st.E {
		panic("ref: emulation mode not modelled")
	}
	c := &cpu{State: *st, m: m}
	op := c.pb(0)
	e := Table[op]
	inf := Info{Op: op, M: e.M, Mode: e.Mode, Len: Len(op, c.P)}
	n := uint16(inf.Len)
	if inf.Len > 1 && uint32(c.PC)+uint32(inf.Len)-1 > 0xFFFF {
		c.ev |= EvOperandWrap
	}
	adv := true // advance PC by n at the end

	switch e.M {
	case ORA, AND, EOR, LDA, CMP, BIT:
		l := c.locate(e.Mode)
		if c.m8() {
			v := c.ld8(l)
			a := byte(c.A)
			switch e.M {
			case ORA:
				a |= v
				c.A = c.A&0xFF00 | uint16(a)
				c.nz8(a)
			case AND:
				a &= v
				c.A = c.A&0xFF00 | uint16(a)
				c.nz8(a)
			case EOR:
				a ^= v
				c.A = c.A&0xFF00 | uint16(a)
				c.nz8(a)
			case LDA:
				c.A = c.A&0xFF00 | uint16(v)
				c.nz8(v)
			case CMP:
				c.nz8(a - v)
				c.flag(fC, a >= v)
			case BIT:
				c.flag(fZ, a&v == 0)
				if e.Mode != ImmM {
					c.flag(fN, v&0x80 != 0)
					c.flag(fV, v&0x40 != 0)
				}
			}
		} else {
			v := c.ld16(l)
			a := c.A
			switch e.M {
			case ORA:
				c.A = a | v
				c.nz16(c.A)
			case AND:
				c.A = a & v
				c.nz16(c.A)
			case EOR:
				c.A = a ^ v
				c.nz16(c.A)
			case LDA:
				c.A = v
				c.nz16(v)
			case CMP:
				c.nz16(a - v)
				c.flag(fC, a >= v)
			case BIT:
				c.flag(fZ, a&v == 0)
				if e.Mode != ImmM {
					c.flag(fN, v&0x8000 != 0)
					c.flag(fV, v&0x4000 != 0)
				}
			}
		}
	case ADC:
		c.adc(c.locate(e.Mode), &inf)
	case SBC:
		c.sbc(c.locate(e.Mode), &inf)
	case STA:
		l := c.locate(e.Mode)
		if c.m8() {
			c.st8(l, byte(c.A))
		} else {
			c.st16(l, c.A)
		}
	case STZ:
		l := c.locate(e.Mode)
		if c.m8() {
			c.st8(l, 0)
		} else {
			c.st16(l, 0)
		}
	case STX, STY:
		l := c.locate(e.Mode)
		v := c.X
		if e.M == STY {
			v = c.Y
		}
		if c.x8() {
			c.st8(l, byte(v))
		} else {
			c.st16(l, v)
		}
	case LDX, LDY, CPX, CPY:
		l := c.locate(e.Mode)
		reg := &c.X
		if e.M == LDY || e.M == CPY {
			reg = &c.Y
		}
		if c.x8() {
			v := c.ld8(l)
			if e.M == LDX || e.M == LDY {
				*reg = uint16(v)
				c.nz8(v)
			} else {
				r := byte(*reg)
				c.nz8(r - v)
				c.flag(fC, r >= v)
			}
		} else {
			v := c.ld16(l)
			if e.M == LDX || e.M == LDY {
				*reg = v
				c.nz16(v)
			} else {
				c.nz16(*reg - v)
				c.flag(fC, *reg >= v)
			}
		}
	case ASL, LSR, ROL, ROR, INC, DEC, TSB, TRB:
		l := c.locate(e.Mode)
		cin := c.P & fC
		if c.m8() {
			v := c.ld8(l)
			var r byte
			switch e.M {
			case ASL:
				c.flag(fC, v&0x80 != 0)
				r = v << 1
			case LSR:
				c.flag(fC, v&1 != 0)
				r = v >> 1
			case ROL:
				c.flag(fC, v&0x80 != 0)
				r = v<<1 | cin
			case ROR:
				c.flag(fC, v&1 != 0)
				r = v>>1 | cin<<7
			case INC:
				r = v + 1
			case DEC:
				r = v - 1
			case TSB:
				c.flag(fZ, v&byte(c.A) == 0)
				r = v | byte(c.A)
			case TRB:
				c.flag(fZ, v&byte(c.A) == 0)
				r = v &^ byte(c.A)
			}
			if e.M != TSB && e.M != TRB {
				c.nz8(r)
			}
			c.st8(l, r)
		} else {
			v := c.ld16(l)
			var r uint16
			switch e.M {
			case ASL:
				c.flag(fC, v&0x8000 != 0)
				r = v << 1
			case LSR:
				c.flag(fC, v&1 != 0)
				r = v >> 1
			case ROL:
				c.flag(fC, v&0x8000 != 0)
				r = v<<1 | uint16(cin)
			case ROR:
				c.flag(fC, v&1 != 0)
				r = v>>1 | uint16(cin)<<15
			case INC:
				r = v + 1
			case DEC:
				r = v - 1
			case TSB:
				c.flag(fZ, v&c.A == 0)
				r = v | c.A
			case TRB:
				c.flag(fZ, v&c.A == 0)
				r = v &^ c.A
			}
			if e.M != TSB && e.M != TRB {
				c.nz16(r)
			}
			c.st16(l, r)
		}
	case INX, INY, DEX, DEY:
		reg := &c.X
		if e.M == INY || e.M == DEY {
			reg = &c.Y
		}
		d := uint16(1)
		if e.M == DEX || e.M == DEY {
			d = 0xFFFF
		}
		if c.x8() {
			*reg = uint16(byte(*reg + d))
			c.nz8(byte(*reg))
		} else {
			*reg += d
			c.nz16(*reg)
		}
	case BPL:
		c.branch(c.P&fN == 0)
		adv = false
	case BMI:
		c.branch(c.P&fN != 0)
		adv = false
	case BVC:
		c.branch(c.P&fV == 0)
		adv = false
	case BVS:
		c.branch(c.P&fV != 0)
		adv = false
	case BCC:
		c.branch(c.P&fC == 0)
		adv = false
	case BCS:
		c.branch(c.P&fC != 0)
		adv = false
	case BNE:
		c.branch(c.P&fZ == 0)
		adv = false
	case BEQ:
		c.branch(c.P&fZ != 0)
		adv = false
	case BRA:
		c.branch(true)
		adv = false
	case BRL:
		off := uint16(c.pb(1)) | uint16(c.pb(2))<<8
		c.PC += 3 + off
		adv = false
	case PER:
		off := uint16(c.pb(1)) | uint16(c.pb(2))<<8
		c.push16(c.PC + 3 + off)
	case JMP:
		o16 := uint16(c.pb(1)) | uint16(c.pb(2))<<8
		switch e.Mode {
		case Abs:
			c.PC = o16
		case AbsInd:
			c.PC = c.ptr16(o16)
		case AbsIndX:
			p := o16 + c.X
			if p == 0xFFFF {
				c.ev |= EvPtrWrap
			}
			k := uint32(c.K) << 16
			c.PC = uint16(c.m.Rd(k|uint32(p))) | uint16(c.m.Rd(k|uint32(p+1)))<<8
		}
		adv = false
	case JML:
		o16 := uint16(c.pb(1)) | uint16(c.pb(2))<<8
		switch e.Mode {
		case AbsL:
			k := c.pb(3)
			c.PC = o16
			c.K = k
		case AbsIndL:
			p := c.ptr24(o16)
			c.PC = uint16(p)
			c.K = byte(p >> 16)
		}
		adv = false
	case JSR:
		o16 := uint16(c.pb(1)) | uint16(c.pb(2))<<8
		switch e.Mode {
		case Abs:
			c.push16(c.PC + 2)
			c.PC = o16
		case AbsIndX:
			// operand bytes are fetched before/around the push; the pointer is read after the push
			c.push16(c.PC + 2)
			p := o16 + c.X
			if p == 0xFFFF {
				c.ev |= EvPtrWrap
			}
			k := uint32(c.K) << 16
			c.PC = uint16(c.m.Rd(k|uint32(p))) | uint16(c.m.Rd(k|uint32(p+1)))<<8
		}
		adv = false
	case JSL:
		o16 := uint16(c.pb(1)) | uint16(c.pb(2))<<8
		k := c.pb(3)
		c.push(c.K)
		c.push16(c.PC + 3)
		c.PC = o16
		c.K = k
		adv = false
	case RTS:
		c.PC = c.pull16() + 1
		adv = false
	case RTL:
		c.PC = c.pull16() + 1
		c.K = c.pull()
		adv = false
	case RTI:
		c.setP(c.pull())
		c.PC = c.pull16()
		c.K = c.pull()
		adv = false
	case BRK:
		c.interrupt(0xFFE6)
		adv = false
	case COP:
		c.interrupt(0xFFE4)
		adv = false
	case WDM:
		c.WDM = c.pb(1)
		c.WDMSeen = true
	case PHP:
		c.push(c.P)
	case PLP:
		c.setP(c.pull())
	case PHA:
		if c.m8() {
			c.push(byte(c.A))
		} else {
			c.push16(c.A)
		}
	case PLA:
		if c.m8() {
			v := c.pull()
			c.A = c.A&0xFF00 | uint16(v)
			c.nz8(v)
		} else {
			c.A = c.pull16()
			c.nz16(c.A)
		}
	case PHX, PHY:
		v := c.X
		if e.M == PHY {
			v = c.Y
		}
		if c.x8() {
			c.push(byte(v))
		} else {
			c.push16(v)
		}
	case PLX, PLY:
		reg := &c.X
		if e.M == PLY {
			reg = &c.Y
		}
		if c.x8() {
			v := c.pull()
			*reg = uint16(v)
			c.nz8(v)
		} else {
			*reg = c.pull16()
			c.nz16(*reg)
		}
	case PHD:
		c.push16(c.D)
	case PLD:
		c.D = c.pull16()
		c.nz16(c.D)
	case PHK:
		c.push(c.K)
	case PHB:
		c.push(c.DBR)
	case PLB:
		c.DBR = c.pull()
		c.nz8(c.DBR)
	case PEA:
		c.push16(uint16(c.pb(1)) | uint16(c.pb(2))<<8)
	case PEI:
		c.push16(c.ptr16(c.D + uint16(c.pb(1))))
	case CLC:
		c.P &^= fC
	case SEC:
		c.P |= fC
	case CLI:
		c.P &^= fI
	case SEI:
		c.P |= fI
	case CLV:
		c.P &^= fV
	case CLD:
		c.P &^= fD
	case SED:
		c.P |= fD
	case REP:
		c.setP(c.P &^ c.pb(1))
	case SEP:
		c.setP(c.P | c.pb(1))
	case XCE:
		carry := c.P&fC != 0
		// E is false here (native); new C = old E = 0
		c.P &^= fC
		if carry {
			c.E = true
			c.setP(c.P | fM | fX)
			c.S = 0x0100 | c.S&0xFF
			inf.LeftNative = true
		}
	case TCS:
		c.S = c.A
	case TSC:
		c.A = c.S
		c.nz16(c.A)
	case TCD:
		c.D = c.A
		c.nz16(c.D)
	case TDC:
		c.A = c.D
		c.nz16(c.A)
	case TXA, TYA:
		v := c.X
		if e.M == TYA {
			v = c.Y
		}
		if c.m8() {
			c.A = c.A&0xFF00 | v&0xFF
			c.nz8(byte(v))
		} else {
			c.A = v
			c.nz16(v)
		}
	case TAX, TAY, TSX, TYX, TXY:
		var v uint16
		var reg *uint16
		switch e.M {
		case TAX:
			v, reg = c.A, &c.X
		case TAY:
			v, reg = c.A, &c.Y
		case TSX:
			v, reg = c.S, &c.X
		case TYX:
			v, reg = c.Y, &c.X
		case TXY:
			v, reg = c.X, &c.Y
		}
		if c.x8() {
			*reg = v & 0xFF
			c.nz8(byte(v))
		} else {
			*reg = v
			c.nz16(v)
		}
	case TXS:
		c.S = c.X
	case NOP, WAI:
	case STP:
		c.Stopped = true
	case XBA:
		c.A = c.A>>8 | c.A<<8
		c.nz8(byte(c.A))
	case MVN, MVP:
		dst := c.pb(1)
		src := c.pb(2)
		c.DBR = dst
		v := c.m.Rd(uint32(src)<<16 | uint32(c.X))
		c.m.Wr(uint32(dst)<<16|uint32(c.Y), v)
		d := uint16(1)
		if e.M == MVP {
			d = 0xFFFF
		}
		if c.x8() {
			c.X = uint16(byte(c.X + d))
			c.Y = uint16(byte(c.Y + d))
		} else {
			c.X += d
			c.Y += d
		}
		c.A--
		if c.A != 0xFFFF {
			adv = false
			c.ev |= EvBlockRepeat
		}
	default:
		panic(fmt.Sprintf("ref: unhandled mnemonic %d", e.M))
	}
	if adv {
		c.PC += n
	}
	if inf.Decimal {
		c.ev |= EvDecimal
	}
	inf.Ev = c.ev
	*st = c.State
	return inf
}
