package ref

import "fmt"

// FindOp returns the opcode with the given mnemonic and addressing mode.
func FindOp(m Mnem, mode Mode) (byte, bool) {
	for i := range Table {
		if Table[i].M == m && Table[i].Mode == mode {
			return byte(i), true
		}
	}
	return 0, false
}

func MnemByName(s string) (Mnem, bool) {
	for i, n := range MnemNames {
		if n == s {
			return Mnem(i), true
		}
	}
	return 0, false
}

// OperandSize is the operand length in bytes of a mode under status P.
func OperandSize(mode Mode, p byte) int {
	switch mode {
	case Imp, Acc:
		return 0
	case ImmM:
		if p&fM != 0 {
			return 1
		}
		return 2
	case ImmX:
		if p&fX != 0 {
			return 1
		}
		return 2
	case Imm8, Dp, DpX, DpY, DpInd, DpIndX, DpIndY, DpIndL, DpIndLY, Rel8, Sr, SrIndY:
		return 1
	case Imm16, Abs, AbsX, AbsY, AbsInd, AbsIndX, AbsIndL, Rel16, BlockMv:
		return 2
	case AbsL, AbsLX:
		return 3
	}
	panic("OperandSize")
}

// Encode returns the canonical machine encoding: opcode byte followed by the
// operand in little-endian order. For block moves the operand is
// dst | src<<8 (destination bank first in object code).
func Encode(m Mnem, mode Mode, operand uint32, p byte) ([]byte, error) {
	op, ok := FindOp(m, mode)
	if !ok {
		return nil, fmt.Errorf("no opcode for %s %s", MnemNames[m], ModeNames[mode])
	}
	n := OperandSize(mode, p)
	out := []byte{op}
	for i := 0; i < n; i++ {
		out = append(out, byte(operand>>(8*uint(i))))
	}
	return out, nil
}

type Decoded struct {
	Op      byte
	M       Mnem
	Mode    Mode
	Operand uint32
	Len     int
}

// Decode decodes the instruction at the start of b under status P.
func Decode(b []byte, p byte) (Decoded, error) {
	if len(b) == 0 {
		return Decoded{}, fmt.Errorf("empty")
	}
	e := Table[b[0]]
	n := Len(b[0], p)
	if len(b) < n {
		return Decoded{}, fmt.Errorf("truncated: need %d bytes", n)
	}
	d := Decoded{Op: b[0], M: e.M, Mode: e.Mode, Len: n}
	for i := 1; i < n; i++ {
		d.Operand |= uint32(b[i]) << (8 * uint(i-1))
	}
	return d, nil
}
