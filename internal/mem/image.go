// Package mem provides the instrumented 16 MiB memory image attached behind
// the buses of both interpreters and the reference model: lazily random
// contents (a hash of seed and address), an overlay of explicit bytes, a write
// map and an access log that keeps the unmasked address each access arrived with.
package mem

type Access struct {
	Addr  uint32
	Val   byte
	Write bool
}

type Image struct {
	Seed uint64
	Ov   map[uint32]byte // explicit initial contents
	Wr   map[uint32]byte // bytes written during the run
	SWr  map[uint32]bool // addresses written since the last ResetStep
	Rd   map[uint32]bool // addresses read (24-bit masked)
	OOB  []uint32        // addresses >= 2^24 that reached the backend
	Log  []Access        // ordered access log (only when KeepLog)
	// options
	KeepLog bool
	NoRdSet bool
	Max     uint32 // largest address seen
	NRead   int
	NWrite  int
	// Limit > 0: a read beyond this many reads panics with LimitExceeded (a logical step bound for
	// code under test that may not terminate)
	Limit int
}

// LimitExceeded is the panic value raised when Image.Limit is passed.
type LimitExceeded struct{ Reads int }

func New(seed uint64) *Image {
	return &Image{Seed: seed, Ov: map[uint32]byte{}, Wr: map[uint32]byte{}, Rd: map[uint32]bool{}, SWr: map[uint32]bool{}}
}

// Base is the lazily-random content of an address never written nor overlaid.
func (m *Image) Base(a uint32) byte {
	x := (uint64(a) + 0x9E3779B97F4A7C15) * (m.Seed | 1)
	x ^= x >> 29
	x *= 0xBF58476D1CE4E5B9
	x ^= x >> 32
	return byte(x)
}

// Peek returns the current content without logging.
func (m *Image) Peek(a uint32) byte {
	a &= 0xFFFFFF
	if v, ok := m.Wr[a]; ok {
		return v
	}
	if v, ok := m.Ov[a]; ok {
		return v
	}
	return m.Base(a)
}

func (m *Image) Rd8(a uint32) byte { return m.RdAddr(a) }

func (m *Image) RdAddr(a uint32) byte {
	if a > m.Max {
		m.Max = a
	}
	if a > 0xFFFFFF {
		m.OOB = append(m.OOB, a)
		a &= 0xFFFFFF
	}
	m.NRead++
	if m.Limit > 0 && m.NRead > m.Limit {
		panic(LimitExceeded{m.NRead})
	}
	if !m.NoRdSet {
		m.Rd[a] = true
	}
	var v byte
	if w, ok := m.Wr[a]; ok {
		v = w
	} else if w, ok := m.Ov[a]; ok {
		v = w
	} else {
		v = m.Base(a)
	}
	if m.KeepLog {
		m.Log = append(m.Log, Access{a, v, false})
	}
	return v
}

func (m *Image) WrAddr(a uint32, v byte) {
	if a > m.Max {
		m.Max = a
	}
	if a > 0xFFFFFF {
		m.OOB = append(m.OOB, a)
		a &= 0xFFFFFF
	}
	m.NWrite++
	m.Wr[a] = v
	if !m.NoRdSet {
		m.SWr[a] = true
	}
	if m.KeepLog {
		m.Log = append(m.Log, Access{a, v, true})
	}
}

// ref.Mem interface
func (m *Image) Rd_(a uint32) byte { return m.RdAddr(a) }

// Clone copies seed and overlay (not the writes / logs).
func (m *Image) Clone() *Image {
	n := New(m.Seed)
	for k, v := range m.Ov {
		n.Ov[k] = v
	}
	n.KeepLog, n.NoRdSet = m.KeepLog, m.NoRdSet
	return n
}

// CloneAll also copies the writes made so far.
func (m *Image) CloneAll() *Image {
	n := m.Clone()
	for k, v := range m.Wr {
		n.Wr[k] = v
	}
	return n
}

// ResetStep clears the per-step read set / log but keeps written contents.
func (m *Image) ResetStep() {
	if len(m.Rd) > 0 {
		m.Rd = map[uint32]bool{}
	}
	if len(m.SWr) > 0 {
		m.SWr = map[uint32]bool{}
	}
	m.Log = m.Log[:0]
	m.OOB = m.OOB[:0]
}

// RefMem adapts an Image to the reference model's memory interface.
type RefMem struct{ M *Image }

func (r RefMem) Rd(a uint32) byte    { return r.M.RdAddr(a) }
func (r RefMem) Wr(a uint32, v byte) { r.M.WrAddr(a, v) }

// BusMem is a memory.Memory whose backing image can be switched between steps.
type BusMem struct{ M *Image }

func (b *BusMem) Read(address uint32) byte         { return b.M.RdAddr(address) }
func (b *BusMem) Write(address uint32, value byte) { b.M.WrAddr(address, value) }
func (b *BusMem) Shutdown()                        {}
func (b *BusMem) Size() uint32                     { return 1 << 24 }
func (b *BusMem) Clear()                           {}
func (b *BusMem) Dump(address uint32) []byte       { return nil }

// SameWrites compares the final contents over the union of written addresses.
func SameWrites(a, b *Image) (uint32, bool) {
	for k, v := range a.Wr {
		if b.Peek(k) != v {
			return k, false
		}
	}
	for k, v := range b.Wr {
		if a.Peek(k) != v {
			return k, false
		}
	}
	return 0, true
}
