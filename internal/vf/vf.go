// Package vf is the shared run-time of every property monitor: seeded PRNG
// streams, coverage-cell accounting, violation / known-finding classification,
// evidence and replay writers, three-valued verdicts.
package vf

import (
	"bufio"
	"crypto/sha1"
	"encoding/hex"
	"encoding/json"
	"fmt"
	"os"
	"path/filepath"
	"runtime/debug"
	"sort"
	"strings"
	"sync"
	"sync/atomic"
	"time"
)

// Root is the directory holding known_findings.txt; Out the one receiving
// evidence/ and replays/ (the same unless VERIF_OUT redirects scratch runs).
var Root = "/verif"
var Out = ""

// ScratchDir is where monitors may put short-lived files (child-process output): under bin/,
// which is git-ignored, never under /tmp.
func ScratchDir() string {
	d := filepath.Join(outDir(), "bin", "scratch")
	_ = os.MkdirAll(d, 0o755)
	return d
}

func outDir() string {
	if Out != "" {
		return Out
	}
	return Root
}

type Violation struct {
	Key    string      `json:"key"`
	Phase  string      `json:"phase"`
	Msg    string      `json:"msg"`
	Detail interface{} `json:"detail,omitempty"`
	Replay string      `json:"replay,omitempty"`
}

type Run struct {
	ID        string
	Tier      string // quick | thorough
	Seed      uint64
	OnlyPhase string // set by --replay: run only this phase
	Level     string

	start time.Time
	evals atomic.Int64 // (a plain int64 is not 64-bit aligned inside a struct on 32-bit targets)

	mu         sync.Mutex
	cells      map[string]int64
	samples    []interface{}
	Extra      map[string]interface{}
	Rule       string
	Exhaustive bool
	Assume     []string
	viol       []Violation
	violByKey  map[string]int
	known      map[string]string // key -> description (for this property)
	knownHit   map[string]int64
	knownEx    map[string]string
	inconcl    []string
	phase      string
	phaseEvals map[string]int64
	CurFile    string
}

func New(id, tier string, seed uint64) *Run {
	r := &Run{ID: id, Tier: tier, Seed: seed, Level: "exploration", start: time.Now(),
		cells: map[string]int64{}, Extra: map[string]interface{}{}, violByKey: map[string]int{},
		known: map[string]string{}, knownHit: map[string]int64{}, knownEx: map[string]string{},
		phaseEvals: map[string]int64{}}
	r.loadKnown()
	return r
}

func (r *Run) Quick() bool { return r.Tier != "thorough" }

// N picks a workload size by tier.
func (r *Run) N(quick, thorough int) int {
	if r.Quick() {
		return quick
	}
	return thorough
}

func (r *Run) loadKnown() {
	f, err := os.Open(filepath.Join(Root, "known_findings.txt"))
	if err != nil {
		return
	}
	defer f.Close()
	sc := bufio.NewScanner(f)
	for sc.Scan() {
		line := strings.TrimSpace(sc.Text())
		if !strings.HasPrefix(line, "known:") {
			continue // "fixed:" lines and comments suppress nothing
		}
		fields := strings.Fields(line[len("known:"):])
		var prop, key string
		var rest []string
		for _, f := range fields {
			switch {
			case strings.HasPrefix(f, "property=") && prop == "":
				prop = f[len("property="):]
			case strings.HasPrefix(f, "key=") && key == "":
				key = f[len("key="):]
			default:
				rest = append(rest, f)
			}
		}
		if prop == r.ID && key != "" {
			r.known[key] = strings.Join(rest, " ")
		}
	}
}

// Phase starts a named phase; returns false if the phase is filtered out
// (replay of another phase).
func (r *Run) Phase(name string) bool {
	if r.OnlyPhase != "" && r.OnlyPhase != name {
		return false
	}
	r.mu.Lock()
	r.phase = name
	r.mu.Unlock()
	return true
}

func (r *Run) Eval(n int64) { r.evals.Add(n) }

func (r *Run) Evals() int64 { return r.evals.Load() }

// Cell counts one observation of a coverage cell.
func (r *Run) Cell(name string) {
	r.mu.Lock()
	r.cells[name]++
	r.mu.Unlock()
}

func (r *Run) CellN(name string, n int64) {
	if n == 0 {
		return
	}
	r.mu.Lock()
	r.cells[name] += n
	r.mu.Unlock()
}

// MergeCells merges a worker-local cell map.
func (r *Run) MergeCells(m map[string]int64) {
	r.mu.Lock()
	for k, v := range m {
		r.cells[k] += v
	}
	r.mu.Unlock()
}

func (r *Run) CellCount(name string) int64 {
	r.mu.Lock()
	defer r.mu.Unlock()
	return r.cells[name]
}

func (r *Run) DistinctCells() int {
	r.mu.Lock()
	defer r.mu.Unlock()
	return len(r.cells)
}

// CellsWithPrefix counts distinct cells with the prefix.
func (r *Run) CellsWithPrefix(p string) int {
	r.mu.Lock()
	defer r.mu.Unlock()
	n := 0
	for k := range r.cells {
		if strings.HasPrefix(k, p) {
			n++
		}
	}
	return n
}

func (r *Run) Sample(v interface{}) {
	r.mu.Lock()
	if len(r.samples) < 12 {
		r.samples = append(r.samples, v)
	}
	r.mu.Unlock()
}

func (r *Run) SetExtra(k string, v interface{}) {
	r.mu.Lock()
	r.Extra[k] = v
	r.mu.Unlock()
}

func (r *Run) AddExtra(k string, n int64) {
	r.mu.Lock()
	cur, _ := r.Extra[k].(int64)
	r.Extra[k] = cur + n
	r.mu.Unlock()
}

// Fail records a discrepancy classified under a stable key. If the key is a
// listed known finding for this property it is counted and reported as
// KNOWN-FINDING; otherwise it is a violation.
func (r *Run) Fail(key, msg string, detail interface{}) {
	r.mu.Lock()
	defer r.mu.Unlock()
	if _, ok := r.known[key]; ok {
		r.knownHit[key]++
		if _, seen := r.knownEx[key]; !seen {
			r.knownEx[key] = msg
		}
		return
	}
	r.violByKey[key]++
	if r.violByKey[key] > 3 || len(r.viol) >= 60 {
		return
	}
	r.viol = append(r.viol, Violation{Key: key, Phase: r.phase, Msg: msg, Detail: detail})
}

func (r *Run) Violations() int {
	r.mu.Lock()
	defer r.mu.Unlock()
	n := 0
	for _, c := range r.violByKey {
		n += c
	}
	return n
}

// TooMany tells long loops to stop once enough has been reported.
func (r *Run) TooMany() bool {
	r.mu.Lock()
	defer r.mu.Unlock()
	n := 0
	for _, c := range r.violByKey {
		n += c
	}
	return n > 2000
}

func (r *Run) Inconclusive(msg string) {
	r.mu.Lock()
	r.inconcl = append(r.inconcl, msg)
	r.mu.Unlock()
}

// Require makes the run inconclusive if a designed-for coverage cell was never hit.
func (r *Run) Require(cell string) {
	if r.OnlyPhase != "" {
		return
	}
	if r.CellCount(cell) == 0 {
		r.Inconclusive("coverage floor missed: cell " + cell + " never observed")
	}
}

// Cur logs the case about to run to disk, so a process-fatal error is attributable.
func (r *Run) Cur(s string) {
	if r.CurFile == "" {
		r.CurFile = filepath.Join(outDir(), "evidence", r.ID+".cur")
	}
	_ = os.WriteFile(r.CurFile, []byte(s+"\n"), 0o644)
}

type evidence struct {
	PropertyID  string                 `json:"property_id"`
	Tier        string                 `json:"tier"`
	Seed        int64                  `json:"seed"`
	Level       string                 `json:"level"`
	Coverage    map[string]interface{} `json:"coverage"`
	Assumptions []string               `json:"assumptions,omitempty"`
	WallS       float64                `json:"wall_s"`
	Violations  int                    `json:"violations"`
	Verdict     string                 `json:"verdict"`
	Known       map[string]int64       `json:"known_findings_observed,omitempty"`
	Inconcl     []string               `json:"inconclusive_reasons,omitempty"`
}

// Finish writes evidence and replay files, prints the verdict lines and
// returns the process exit code.
func (r *Run) Finish() int {
	r.mu.Lock()
	defer r.mu.Unlock()
	if r.CurFile != "" {
		_ = os.Remove(r.CurFile)
	}
	nviol := 0
	for _, c := range r.violByKey {
		nviol += c
	}
	verdict := "held"
	code := 0
	if nviol > 0 {
		verdict = "violated"
		code = 1
	} else if len(r.inconcl) > 0 {
		verdict = "inconclusive"
		code = 2
	}
	// replays
	if nviol > 0 {
		dir := filepath.Join(outDir(), "replays", r.ID)
		_ = os.MkdirAll(dir, 0o755)
		for i := range r.viol {
			v := &r.viol[i]
			rec := map[string]interface{}{"property": r.ID, "tier": r.Tier, "seed": r.Seed, "phase": v.Phase,
				"key": v.Key, "msg": v.Msg, "detail": v.Detail}
			b, _ := json.MarshalIndent(rec, "", " ")
			h := sha1.Sum(b)
			p := filepath.Join(dir, hex.EncodeToString(h[:6])+".json")
			_ = os.WriteFile(p, b, 0o644)
			v.Replay = p
		}
	}
	// coverage cells summary: exact counts when few; otherwise cells are grouped by prefix and a
	// group is kept cell by cell only if it is small
	cells := map[string]int64{}
	if len(r.cells) <= 400 {
		for k, v := range r.cells {
			cells[k] = v
		}
	} else {
		group := func(k string) string {
			if i := strings.IndexAny(k, ":/"); i > 0 {
				return k[:i]
			}
			return k
		}
		size := map[string]int{}
		for k := range r.cells {
			size[group(k)]++
		}
		for k, v := range r.cells {
			if g := group(k); size[g] > 24 {
				cells[fmt.Sprintf("%s:* (%d cells)", g, size[g])] += v
			} else {
				cells[k] = v
			}
		}
	}
	cov := map[string]interface{}{
		"evaluations":         r.evals.Load(),
		"distinct_nontrivial": len(r.cells),
		"rule":                r.Rule,
		"samples":             r.samples,
		"cells":               cells,
	}
	if r.Exhaustive {
		cov["exhaustive"] = true
	}
	for k, v := range r.Extra {
		cov[k] = v
	}
	if len(r.samples) == 0 {
		cov["samples"] = []interface{}{}
	}
	ev := evidence{PropertyID: r.ID, Tier: r.Tier, Seed: int64(r.Seed), Level: r.Level, Coverage: cov,
		Assumptions: r.Assume, WallS: time.Since(r.start).Seconds(), Violations: nviol, Verdict: verdict,
		Known: r.knownHit, Inconcl: r.inconcl}
	if r.OnlyPhase == "" {
		b, _ := json.MarshalIndent(ev, "", " ")
		_ = os.MkdirAll(filepath.Join(outDir(), "evidence"), 0o755)
		if err := os.WriteFile(filepath.Join(outDir(), "evidence", r.ID+".json"), append(b, '\n'), 0o644); err != nil {
			fmt.Println("INCONCLUSIVE property=" + r.ID + " cannot write evidence: " + err.Error())
			if code == 0 {
				code = 2
			}
		}
	}
	// report
	keys := make([]string, 0, len(r.knownHit))
	for k := range r.knownHit {
		keys = append(keys, k)
	}
	sort.Strings(keys)
	for _, k := range keys {
		fmt.Printf("KNOWN-FINDING: property=%s key=%s observed=%d %s | e.g. %s\n", r.ID, k, r.knownHit[k], r.known[k], r.knownEx[k])
	}
	for _, v := range r.viol {
		fmt.Printf("  violation[%s] phase=%s %s\n", v.Key, v.Phase, v.Msg)
	}
	if len(r.violByKey) > 0 {
		vk := make([]string, 0, len(r.violByKey))
		for k := range r.violByKey {
			vk = append(vk, k)
		}
		sort.Strings(vk)
		for _, k := range vk {
			fmt.Printf("  class %-60s count=%d\n", k, r.violByKey[k])
		}
	}
	seen := map[string]bool{}
	for _, v := range r.viol {
		if seen[v.Key] {
			continue
		}
		seen[v.Key] = true
		fmt.Printf("VIOLATION property=%s replay=%s\n", r.ID, v.Replay)
	}
	for _, m := range r.inconcl {
		fmt.Printf("INCONCLUSIVE property=%s %s\n", r.ID, m)
	}
	fmt.Printf("%s %s tier=%s seed=%d evaluations=%d cells=%d violations=%d wall=%.1fs\n", r.ID, verdict, r.Tier, r.Seed,
		r.evals.Load(), len(r.cells), nviol, time.Since(r.start).Seconds())
	return code
}

// ---------------------------------------------------------------- PRNG

// Rng is splitmix64; streams are derived from (seed, name) so that the case
// list of a phase does not depend on how much another phase consumed.
type Rng struct{ s uint64 }

func hashName(s string) uint64 {
	h := uint64(1469598103934665603)
	for i := 0; i < len(s); i++ {
		h ^= uint64(s[i])
		h *= 1099511628211
	}
	return h
}

func (r *Run) Rand(stream string) *Rng {
	g := &Rng{s: r.Seed*0x9E3779B97F4A7C15 ^ hashName(r.ID+"/"+stream)}
	g.U64()
	return g
}

func NewRng(seed uint64) *Rng { return &Rng{s: seed} }

func (g *Rng) Fork(i uint64) *Rng {
	n := &Rng{s: g.s ^ (i+1)*0xD1342543DE82EF95}
	n.U64()
	return n
}

func (g *Rng) U64() uint64 {
	g.s += 0x9E3779B97F4A7C15
	z := g.s
	z = (z ^ (z >> 30)) * 0xBF58476D1CE4E5B9
	z = (z ^ (z >> 27)) * 0x94D049BB133111EB
	return z ^ (z >> 31)
}
func (g *Rng) U32() uint32 { return uint32(g.U64() >> 32) }
func (g *Rng) U16() uint16 { return uint16(g.U64() >> 48) }
func (g *Rng) U8() byte    { return byte(g.U64() >> 56) }
func (g *Rng) Intn(n int) int {
	if n <= 0 {
		return 0
	}
	return int(g.U64() % uint64(n))
}
func (g *Rng) Bool() bool { return g.U64()&(1<<40) != 0 }
func (g *Rng) Bytes(n int) []byte {
	b := make([]byte, n)
	for i := range b {
		b[i] = g.U8()
	}
	return b
}

// Parallel runs fn(worker, i) for i in [0,n) on `workers` goroutines. A panic
// in a worker is re-raised on the calling goroutine (with the worker's stack).
func Parallel(workers, n int, fn func(w, i int)) {
	if workers < 1 {
		workers = 1
	}
	var next atomic.Int64
	next.Store(-1)
	var wg sync.WaitGroup
	var pmu sync.Mutex
	var firstPanic interface{}
	// all workers are released together, so that first-use (lazy initialisation) code in the
	// library is entered by several goroutines at the same instant
	var start int32 // spin barrier: a channel close wakes the workers one after another, microseconds apart
	var ready sync.WaitGroup
	ready.Add(workers)
	for w := 0; w < workers; w++ {
		wg.Add(1)
		go func(w int) {
			defer wg.Done()
			ready.Done()
			for atomic.LoadInt32(&start) == 0 {
			}
			defer func() {
				if e := recover(); e != nil {
					pmu.Lock()
					if firstPanic == nil {
						firstPanic = fmt.Sprintf("%v\n%s", e, debug.Stack())
					}
					pmu.Unlock()
					next.Store(int64(n)) // stop the other workers
				}
			}()
			for {
				i := int(next.Add(1))
				if i >= n {
					return
				}
				fn(w, i)
			}
		}(w)
	}
	ready.Wait()
	atomic.StoreInt32(&start, 1)
	wg.Wait()
	if firstPanic != nil {
		panic(firstPanic)
	}
}

// Try runs f and returns its panic value, if any.
func Try(f func()) (pan interface{}) {
	defer func() { pan = recover() }()
	f()
	return nil
}

func Hex(b []byte) string { return hex.EncodeToString(b) }

// AnyCell reports whether some observed cell satisfies pred.
func (r *Run) AnyCell(pred func(string) bool) bool {
	r.mu.Lock()
	defer r.mu.Unlock()
	for k := range r.cells {
		if pred(k) {
			return true
		}
	}
	return false
}

// RequireSub makes the run inconclusive unless some cell name contains sub.
func (r *Run) RequireSub(sub string) {
	if r.OnlyPhase != "" {
		return
	}
	if !r.AnyCell(func(k string) bool { return strings.Contains(k, sub) }) {
		r.Inconclusive("coverage floor missed: no cell containing " + sub + " observed")
	}
}

// Parallel is vf.Parallel with every item guarded: a panic escaping from an
// item (the monitors recover the panics they expect themselves) is recorded
// as a violation with the stack, and the remaining items still run.
func (r *Run) Parallel(workers, n int, fn func(w, i int)) {
	Parallel(workers, n, func(w, i int) {
		defer func() {
			if e := recover(); e != nil {
				st := string(debug.Stack())
				if len(st) > 1800 {
					st = st[:1800]
				}
				r.Fail("unexpected-panic", fmt.Sprintf("item %d: unexpected panic: %v", i, e), st)
			}
		}()
		fn(w, i)
	})
}
