package props

import (
	"hash/crc32"

	"verif/internal/vf"
)

// forgeCRC returns the four bytes which, appended to prefix, give the CRC-32 (table tab) target.
func forgeCRC(tab *crc32.Table, prefix []byte, target uint32) [4]byte {
	var rev [256]byte
	for i := 0; i < 256; i++ {
		rev[tab[i]>>24] = byte(i)
	}
	state := ^crc32.Update(0, tab, prefix) // the register after the prefix
	want := ^target
	var idx [4]byte
	r := want
	for i := 3; i >= 0; i-- {
		e := rev[r>>24]
		idx[i] = e
		r = (r ^ tab[e]) << 8
	}
	var out [4]byte
	c := state
	for i := 0; i < 4; i++ {
		out[i] = byte(c) ^ idx[i]
		c = tab[idx[i]] ^ (c >> 8)
	}
	return out
}

// collidingBlock returns a block of the same length as a, different from it, that a checksum cannot tell
// from a: equal CRC-32 (IEEE or Castagnoli), or the same bytes in another order (equal sum and xor).
// ok is false where no such block exists (very short blocks).
func collidingBlock(g *vf.Rng, a []byte) (b []byte, kind string, ok bool) {
	n := len(a)
	switch k := g.Intn(3); {
	case k < 2 && n >= 5:
		tab, name := crc32.IEEETable, "crc32-ieee"
		if k == 1 {
			tab, name = crc32.MakeTable(crc32.Castagnoli), "crc32c"
		}
		b = g.Bytes(n)
		tail := forgeCRC(tab, b[:n-4], crc32.Checksum(a, tab))
		copy(b[n-4:], tail[:])
		if crc32.Checksum(b, tab) != crc32.Checksum(a, tab) || string(b) == string(a) {
			return nil, "", false
		}
		return b, name, true
	case n >= 2:
		b = append([]byte(nil), a...)
		for try := 0; try < 8; try++ {
			i, j := g.Intn(n), g.Intn(n)
			b[i], b[j] = b[j], b[i]
			if string(b) != string(a) {
				return b, "permutation", true
			}
		}
	}
	return nil, "", false
}
