package props

import (
	"bufio"
	"bytes"
	"fmt"
	"runtime"
	"strings"
	"sync"

	"github.com/alttpo/snes/emulator"

	"verif/internal/mem"
	"verif/internal/ref"
	"verif/internal/vf"
)

func init() { reg("C14", C14) }

// writerFunc and taggedWriter: Loggers whose dynamic types are not comparable.
type writerFunc func([]byte) (int, error)

func (f writerFunc) Write(p []byte) (int, error) { return f(p) }

type taggedWriter struct {
	w    *countWriter
	tags []string
}

func (t taggedWriter) Write(p []byte) (int, error) { return t.w.Write(p) }

type traceLine struct {
	bank    byte
	pc      uint16
	bytes   []byte
	mnem    string
	operand string // trimmed operand rendering
	regs    string // the A=.. X=.. Y=.. part
	flags   string // 8 flag letters
}

func isHexDigit(c byte) bool {
	return (c >= '0' && c <= '9') || (c >= 'a' && c <= 'f') || (c >= 'A' && c <= 'F')
}

// parseTrace parses a trace line of either interpreter.
func parseTrace(line string) (t traceLine, err error) {
	line = strings.TrimRight(strings.ReplaceAll(line, "│", "|"), "\n")
	parts := strings.Split(line, "|")
	idx := -1
	for i := range parts {
		f := strings.TrimSpace(parts[i])
		if j := strings.LastIndex(f, "\t"); j >= 0 {
			f = f[j+1:]
		}
		if len(f) == 7 && f[2] == ':' {
			idx = i
			var b, p uint32
			if _, e := fmt.Sscanf(f, "%02x:%04x", &b, &p); e != nil {
				return t, fmt.Errorf("bad address field %q", f)
			}
			t.bank, t.pc = byte(b), uint16(p)
			break
		}
	}
	if idx < 0 || idx+2 >= len(parts) {
		return t, fmt.Errorf("no KK:PPPP field in %q", line)
	}
	for _, tok := range strings.Fields(parts[idx+1]) {
		var v uint32
		if len(tok) != 2 {
			return t, fmt.Errorf("bad byte token %q", tok)
		}
		if _, e := fmt.Sscanf(tok, "%02x", &v); e != nil {
			return t, fmt.Errorf("bad byte token %q", tok)
		}
		t.bytes = append(t.bytes, byte(v))
	}
	ins := parts[idx+2]
	if len(ins) < 4 {
		return t, fmt.Errorf("short instruction field %q", ins)
	}
	t.mnem = strings.TrimSpace(ins[:3])
	t.operand = strings.TrimSpace(ins[3:])
	// registers: before the address (cpualt) or after the instruction (cpu65c816)
	var regpart string
	if idx+3 < len(parts) && strings.Contains(parts[idx+3], "A=") {
		regpart = parts[idx+3]
	} else {
		for i := 0; i < idx; i++ {
			if strings.Contains(parts[i], "A=") {
				regpart = parts[i]
			}
		}
	}
	f := strings.Fields(regpart)
	for _, x := range f {
		if strings.HasPrefix(x, "A=") || strings.HasPrefix(x, "X=") || strings.HasPrefix(x, "Y=") {
			t.regs += x + " "
		} else if len(x) == 8 && !strings.Contains(x, "=") {
			t.flags = x
		}
	}
	t.regs = strings.TrimSpace(t.regs)
	return t, nil
}

func hexDigits(s string) string {
	var b strings.Builder
	for i := 0; i < len(s); i++ {
		if isHexDigit(s[i]) {
			b.WriteByte(s[i] | 0x20)
		}
	}
	return b.String()
}

func shapeOf(s string) string {
	if s == "A" || s == "a" {
		return s
	}
	b := []byte(s)
	for i := range b {
		if isHexDigit(b[i]) {
			b[i] = 'h'
		}
	}
	return string(b)
}

type shapeBook struct {
	mu     sync.Mutex
	byMode map[string]map[string]bool // who:mode(size) -> shapes
}

var libMnemAlias = map[string]string{"jml": "jmp"}

// checkTraceLine verifies one trace line against the pre-step state.
func checkTraceLine(r *vf.Run, who string, line string, pre ref.State, img *mem.Image, book *shapeBook, curPC uint16, detail func() interface{}) (ok bool, op byte) {
	t, err := parseTrace(line)
	if err != nil {
		r.Fail("trace-unparsable:"+who, fmt.Sprintf("%s: %v", who, err), detail())
		return false, 0
	}
	k := uint32(pre.K) << 16
	op = img.Peek(k | uint32(pre.PC))
	e := ref.Table[op]
	name := opName(op)
	fail := func(key, msg string) bool {
		r.Fail(key+":"+who, fmt.Sprintf("%s trace of %s at $%02x:%04x: %s | line=%q pre={%v}", who, name, pre.K, pre.PC, msg, strings.TrimSpace(line), pre), detail())
		return false
	}
	if t.bank != pre.K || t.pc != pre.PC {
		return fail("trace-address", fmt.Sprintf("shows %02x:%04x", t.bank, t.pc)), op
	}
	p := pre.P
	if pre.E {
		p |= 0x30
	}
	n := ref.Len(op, p)
	want := make([]byte, n)
	for i := 0; i < n; i++ {
		want[i] = img.Peek(k | uint32(pre.PC+uint16(i)))
	}
	if op == 0x00 && len(t.bytes) == 1 && t.bytes[0] == 0 {
		// BRK: the signature byte is architecturally part of the instruction but commonly not listed
		want = want[:1]
		n = 1
	}
	if string(t.bytes) != string(want) {
		key := "trace-bytes"
		if e.Mode == ref.ImmM || e.Mode == ref.ImmX {
			key = "trace-bytes-immediate-width"
		}
		return fail(key, fmt.Sprintf("lists bytes % x, the instruction occupies % x for M=%d X=%d", t.bytes, want, p>>5&1, p>>4&1)), op
	}
	wantMn := ref.MnemNames[e.M]
	if a, okk := libMnemAlias[wantMn]; okk && t.mnem == a {
		wantMn = a
	}
	if t.mnem != wantMn {
		return fail("trace-mnemonic", fmt.Sprintf("shows mnemonic %q, the opcode is %q", t.mnem, wantMn)), op
	}
	// operand rendering
	opnd := make([]byte, 0, 3)
	for i := n - 1; i >= 1; i-- {
		opnd = append(opnd, want[i])
	}
	digits := hexDigits(t.operand)
	switch e.Mode {
	case ref.Rel8:
		dest := pre.PC + 2 + uint16(int16(int8(want[1])))
		wantDigits := fmt.Sprintf("%02x%04x", want[1], dest)
		if digits != wantDigits {
			key := "trace-branch-destination"
			if int8(want[1]) < 0 {
				key = "trace-branch-destination-backward"
			}
			return fail(key, fmt.Sprintf("renders %q; offset %02x from $%04x leads to $%04x", t.operand, want[1], pre.PC, dest)), op
		}
		plus, minus := strings.Contains(t.operand, "+)"), strings.Contains(t.operand, "-)")
		if (plus || minus) && plus != (int8(want[1]) >= 0) {
			key := "trace-branch-direction"
			if int8(want[1]) < 0 {
				key = "trace-branch-destination-backward"
			}
			return fail(key, fmt.Sprintf("renders %q for displacement %d", t.operand, int8(want[1]))), op
		}
	case ref.Rel16:
		dest := pre.PC + 3 + (uint16(want[1]) | uint16(want[2])<<8)
		if digits != fmt.Sprintf("%04x", dest) {
			return fail("trace-branch-destination", fmt.Sprintf("renders %q; the long displacement leads to $%04x", t.operand, dest)), op
		}
	case ref.Acc:
		if t.operand != "A" && t.operand != "a" && t.operand != "" {
			return fail("trace-operand", fmt.Sprintf("renders %q for accumulator addressing", t.operand)), op
		}
	default:
		if op == 0x00 {
			break
		}
		if digits != vf.Hex(opnd) {
			return fail("trace-operand", fmt.Sprintf("renders %q; operand bytes are % x", t.operand, opnd)), op
		}
	}
	_ = curPC
	// shape is a function of the addressing mode (and operand size)
	if e.Mode != ref.Rel8 && e.Mode != ref.Rel16 && op != 0x00 {
		key := fmt.Sprintf("%s:%s/%d", who, ref.ModeNames[e.Mode], n)
		sh := shapeOf(t.operand)
		book.mu.Lock()
		if book.byMode[key] == nil {
			book.byMode[key] = map[string]bool{}
		}
		book.byMode[key][sh] = true
		book.mu.Unlock()
	}
	// registers at the width the instruction sees
	var wa, wx, wy string
	if p&0x20 == 0 {
		wa = fmt.Sprintf("A=%04x", pre.A)
	} else {
		wa = fmt.Sprintf("A=--%02x", byte(pre.A))
	}
	if p&0x10 == 0 {
		wx, wy = fmt.Sprintf("X=%04x", pre.X), fmt.Sprintf("Y=%04x", pre.Y)
	} else {
		wx, wy = fmt.Sprintf("X=--%02x", byte(pre.X)), fmt.Sprintf("Y=--%02x", byte(pre.Y))
	}
	if wantRegs := wa + " " + wx + " " + wy; strings.ToLower(t.regs) != strings.ToLower(wantRegs) {
		return fail("trace-registers", fmt.Sprintf("shows %q, the instruction will see %q", t.regs, wantRegs)), op
	}
	letters := "nvmxdizc"
	var wf strings.Builder
	for i := 0; i < 8; i++ {
		if p&(0x80>>uint(i)) != 0 {
			wf.WriteByte(letters[i])
		} else {
			wf.WriteByte('-')
		}
	}
	if strings.ToLower(t.flags) != wf.String() {
		return fail("trace-flags", fmt.Sprintf("shows flags %q, the instruction will see %q", t.flags, wf.String())), op
	}
	return true, op
}

func C14(r *vf.Run) {
	r.Rule = "(a) twin runs: System.RunUntil with Logger=nil vs a recording io.Writer vs one that is also Reserver/Committer (and cpualt stepped with/without DisassembleCurrentPC interleaved) on the same image: final registers, AllCycles and memory must coincide, also for runs ending at reached targets with acting callbacks and pending interrupts, and on the emulator as CreateEmulator builds it with the program living in ROM, work RAM, its low mirror, cartridge RAM or the register window; (b) every trace line parsed and checked against the pre-step state: bank:address, exactly the bytes of the instruction for the current widths (in-bank wrap), mnemonic, operand digits in conventional order, operand shape a function of the addressing mode and distinct between data addressing modes, rel8/rel16 destinations, A/X/Y at the width the instruction sees, eight flag letters. Workload: random instruction streams in native and emulation mode, every opcode x 4 width settings, every rel8 displacement forward and backward, instructions straddling a bank end. A cell is (interpreter, opcode, M, X, branch direction)"
	r.Assume = []string{"the leading cycles column (count of the previous step) is not judged", "BRK may be listed with one or two bytes"}
	ncpu := runtime.NumCPU()
	book := &shapeBook{byMode: map[string]map[string]bool{}}

	lineCase := func(w *diffWorker, s ref.State, img *mem.Image, g *vf.Rng, cells map[string]int64) {
		w.rig.loadPrim(s, g.Intn(3) == 0, g)
		w.rig.loadAltFromPrim()
		mp, ma := img.Clone(), img.Clone()
		w.rig.bm.M, w.rig.am = mp, ma
		pre := absPrim(&w.rig.prim)
		det := func() interface{} {
			op := img.Peek(uint32(s.K)<<16 | uint32(s.PC))
			return describeCase(s, false, img, ref.Info{Op: op, M: ref.Table[op].M, Mode: ref.Table[op].Mode})
		}
		var lineP string
		if pan := vf.Try(func() { lineP = string(w.rig.prim.DisassembleCurrentPC(nil)) }); pan != nil {
			r.Fail("trace-panics:cpu65c816", fmt.Sprintf("DisassembleCurrentPC panicked: %v | pre={%v}", pan, pre), det())
			return
		}
		var sb strings.Builder
		if pan := vf.Try(func() { w.rig.alt.DisassembleCurrentPC(&sb) }); pan != nil {
			r.Fail("trace-panics:cpualt", fmt.Sprintf("DisassembleCurrentPC panicked: %v | pre={%v}", pan, pre), det())
			return
		}
		if len(mp.Wr) != 0 || len(ma.Wr) != 0 {
			r.Fail("trace-writes-memory", "disassembling wrote to memory", det())
		}
		if d := diffState(pre, absPrim(&w.rig.prim)); len(d) > 0 {
			r.Fail("trace-perturbs:cpu65c816", fmt.Sprintf("disassembling changed %v", d), det())
		}
		if d := diffState(pre, absAlt(w.rig.alt)); len(d) > 0 {
			r.Fail("trace-perturbs:cpualt", fmt.Sprintf("disassembling changed %v", d), det())
		}
		ok1, op := checkTraceLine(r, "cpu65c816", lineP, pre, img, book, s.PC, det)
		ok2, _ := checkTraceLine(r, "cpualt", sb.String(), pre, img, book, s.PC, det)
		r.Eval(2)
		if ok1 && ok2 {
			dir := ""
			if ref.Table[op].Mode == ref.Rel8 {
				if int8(img.Peek(uint32(s.K)<<16|uint32(s.PC+1))) < 0 {
					dir = ":backward"
				} else {
					dir = ":forward"
				}
			}
			e := 0
			if s.E {
				e = 1
			}
			cells[fmt.Sprintf("line:op%02x:e%d:mx%d%s", op, e, s.P>>4&3, dir)]++
		}
	}

	if r.Phase("lines-directed") {
		per := r.N(10, 3000)
		r.Parallel(ncpu, 256, func(wi, opi int) {
			w := newDiffWorker(r)
			defer w.flush()
			g := r.Rand("lines").Fork(uint64(opi))
			op := byte(opi)
			for e := 0; e < 2; e++ {
				for mx := byte(0); mx < 4; mx++ {
					if e == 1 && mx != 3 {
						continue
					}
					for i := 0; i < per && !r.TooMany(); i++ {
						s, img := modeState(g, op, e == 1, mx, byte(g.Intn(2)))
						lineCase(w, s, img, g, w.cells)
					}
					if ref.Table[op].Mode == ref.Rel8 {
						// every displacement, forward and backward, also near bank ends
						for d := 0; d < 256; d++ {
							s, img := modeState(g, op, e == 1, mx, 0)
							k := uint32(s.K) << 16
							img.Ov = map[uint32]byte{}
							if d%3 == 0 {
								s.PC = []uint16{0xFFFE, 0xFFFD, 0x0000, 0x007F, 0xFF80}[g.Intn(5)]
							}
							img.Ov[k|uint32(s.PC)] = op
							img.Ov[k|uint32(s.PC+1)] = byte(d)
							lineCase(w, s, img, g, w.cells)
						}
					}
				}
			}
		})
		r.Sample(map[string]interface{}{"line_cpu65c816": "2\t00:8000|d0 fe      |bne $fe ($8000 -)| A=0000 X=0000 Y=0000 --------", "checked": "address, bytes, mnemonic, operand digits, destination, registers, flags"})
	}

	if r.Phase("twin-runs") {
		n := r.N(2880, 768000)
		chunks := 96
		r.Parallel(min(ncpu, 8), chunks, func(wi, ci int) {
			A, B := getSysRig(), getSysRig()
			defer putSysRig(A)
			defer putSysRig(B)
			w := newDiffWorker(r)
			defer w.flush()
			g := r.Rand("twin").Fork(uint64(ci))
			for i := 0; i < n/chunks && !r.TooMany(); i++ {
				s := genState(g)
				if g.Intn(3) == 0 {
					s = genEmuState(g)
				}
				img := mem.New(g.U64())
				genProgram(g, &s, img, 40+g.Intn(80))
				selfmod := g.Intn(8) == 0
				if selfmod {
					// a loop that rewrites operands of its own instructions on every pass (a counter kept in an
					// immediate, a patched address): each pass is traced from the bytes as they are then
					//   LDA #v ; INC A ; STA long <operand of the LDA> ; STA long <low byte of the LDX operand> ; LDX abs ; BRA loop
					s.P |= 0x20
					s.PC = uint16(0x0400 + g.Intn(0xF000))
					k, pc := uint32(s.K)<<16, s.PC
					put := func(at uint16, b ...byte) {
						for j, x := range b {
							img.Ov[k|uint32(at+uint16(j))] = x
						}
					}
					put(pc, 0xA9, g.U8(), 0x1A,
						0x8F, byte(pc+1), byte((pc+1)>>8), s.K,
						0x8F, byte(pc+12), byte((pc+12)>>8), s.K,
						0xAE, g.U8(), g.U8(),
						0x80, 0xF0)
					w.cells["twin:self-modifying-loop"]++
				}
				stale := g.Intn(3) == 0
				budget := uint64(50 + g.Intn(500))
				target := g.U32() & 0xFFFFFF
				// half of the runs end at an address the program really reaches (possibly the start), some
				// with callbacks that act on the CPU and with an interrupt already requested at entry
				var plan []hookPlan
				var visited []uint32
				pendingAtEntry := 0
				if g.Bool() {
					md := img.Clone()
					md.NoRdSet = true
					B.load(s, stale, g, md)
					var pcs []uint32
					for j := 0; j < 40; j++ {
						pcs = append(pcs, B.s.GetPC())
						if pan := vf.Try(func() { B.s.CPU.Step() }); pan != nil || B.s.CPU.Stopped {
							break
						}
					}
					visited = pcs
					target = pcs[[]int{0, len(pcs) - 1, g.Intn(len(pcs)), g.Intn(len(pcs))}[g.Intn(4)]]
					if g.Intn(6) == 0 {
						// a target that is no address at all (the parameter is 32 bits wide; "run for the budget"
						// is spelled $FFFFFFFF by some callers): its low 24 bits are a place the program visits
						target |= uint32(1+g.Intn(255)) << 24
					}
					if g.Intn(3) == 0 {
						for h := 1 + g.Intn(3); h > 0; h-- {
							plan = append(plan, hookPlan{at: pcs[g.Intn(len(pcs))], kind: 1 + g.Intn(4), to: 0})
						}
						if g.Bool() { // the instruction just before the target raises an interrupt
							for j := 1; j < len(pcs); j++ {
								if pcs[j] == target {
									plan = append(plan, hookPlan{at: pcs[j-1], kind: 1 + g.Intn(2)})
									break
								}
							}
						}
					}
					if g.Intn(4) == 0 {
						pendingAtEntry = 1 + g.Intn(2)
					}
				}
				det := func() interface{} {
					return map[string]interface{}{"start": s.String(), "image_seed": img.Seed, "overlay_bytes": len(img.Ov), "budget": budget, "target": fmt.Sprintf("$%06x", target), "callbacks": fmt.Sprint(plan), "interrupt_pending_at_entry": pendingAtEntry}
				}
				// without logger
				mb := img.Clone()
				mb.NoRdSet = true
				B.load(s, stale, g, mb)
				B.s.Logger = nil
				installHooks(&B.s.CPU, plan, pendingAtEntry, 0)
				var panB interface{}
				// single-step B to capture pre-step states for the line checks
				var pres []ref.State
				// the run is one RunUntil call, or two or three consecutive calls on the same System
				// (a front-end running frame by frame)
				budgets := []uint64{budget}
				switch g.Intn(3) {
				case 0:
					budgets = []uint64{budget / 2, budget - budget/2}
				case 1:
					budgets = []uint64{budget / 3, budget / 3, budget - 2*(budget/3)}
				}
				for _, b := range budgets {
					consumed := uint64(0)
					for consumed < b && panB == nil {
						if B.s.GetPC() == target {
							break
						}
						pres = append(pres, absPrim(&B.s.CPU))
						var c int
						if panB = vf.Try(func() { c, _ = B.s.CPU.Step() }); panB != nil {
							break
						}
						consumed += uint64(c)
					}
				}
				B.s.CPU.OnPC = nil
				if panB != nil {
					continue
				}
				// with logger
				ma := img.Clone()
				ma.NoRdSet = true
				A.load(s, stale, g, ma)
				var cw *countWriter
				var bw *bufio.Writer
				kind := "writer"
				if g.Intn(3) == 0 {
					// a Logger is any io.Writer: the standard buffered writer (any buffer size) is the usual one
					cw = &countWriter{keep: true}
					bw = bufio.NewWriterSize(cw, []int{16, 64, 100, 128, 200, 512, 4096, 65536}[g.Intn(8)])
					A.s.Logger = bw
					kind = "bufio"
				} else if g.Intn(3) == 0 {
					// ... or a function adapter, or a small struct passed by value (types whose values cannot be compared)
					cw = &countWriter{keep: true}
					if g.Bool() {
						A.s.Logger = writerFunc(cw.Write)
						kind = "func-adapter"
					} else {
						A.s.Logger = taggedWriter{w: cw, tags: []string{"trace"}}
						kind = "value-struct"
					}
				} else if g.Bool() {
					cw = &countWriter{keep: true}
					A.s.Logger = cw
				} else {
					rw := &reserveWriter{}
					rw.keep = true
					cw = &rw.countWriter
					A.s.Logger = rw
					kind = "reserver"
				}
				installHooks(&A.s.CPU, plan, pendingAtEntry, int(budget)+64)
				// the host may detach (or swap) the Logger from inside a callback, in the middle of a run: the
				// trace ends there (or goes elsewhere), the execution does not care
				loggerDetached := false
				if len(visited) > 0 && g.Intn(5) == 0 {
					at := visited[g.Intn(len(visited))]
					if A.s.CPU.OnPC == nil {
						A.s.CPU.OnPC = map[uint32]func(){}
					}
					prev := A.s.CPU.OnPC[at]
					swap := g.Intn(3) == 0
					A.s.CPU.OnPC[at] = func() {
						if swap {
							A.s.Logger = &countWriter{}
						} else {
							A.s.Logger = nil
						}
						if prev != nil {
							prev()
						}
					}
					loggerDetached = true
				}
				ma.Limit = (int(budget) + 64) * 24
				panA := vf.Try(func() {
					for _, b := range budgets {
						A.s.RunUntil(target, b)
					}
				})
				ma.Limit = 0
				A.s.CPU.OnPC = nil
				if bw != nil {
					_ = bw.Flush()
					all := strings.Join(cw.lines, "")
					cw.lines = strings.SplitAfter(all, "\n")
					if n := len(cw.lines); n > 0 && cw.lines[n-1] == "" {
						cw.lines = cw.lines[:n-1]
					}
				}
				if panA != nil {
					r.Fail("logged-run-panics", fmt.Sprintf("RunUntil with a Logger panicked (or did not end): %v", panA), det())
					continue
				}
				r.Eval(1)
				if B.s.GetPC() == target {
					w.cells["twin:ended-at-target"]++
					if A.s.CPU.Interrupt > 1 || B.s.CPU.Interrupt > 1 {
						w.cells["twin:ended-at-target-with-interrupt-pending"]++
					}
				}
				sa, sb := absPrim(&A.s.CPU), absPrim(&B.s.CPU)
				if d := diffState(sa, sb); len(d) > 0 || A.s.CPU.AllCycles != B.s.CPU.AllCycles {
					r.Fail("logger-perturbs-execution", fmt.Sprintf("with Logger (%s): {%v} cycles=%d; without: {%v} cycles=%d; differing %v", kind, sa, A.s.CPU.AllCycles, sb, B.s.CPU.AllCycles, d), det())
					continue
				}
				if a, same := mem.SameWrites(ma, mb); !same {
					r.Fail("logger-perturbs-memory", fmt.Sprintf("memory differs at $%06x between the logged and the unlogged run", a), det())
					continue
				}
				if A.s.CPU.Interrupt != B.s.CPU.Interrupt {
					r.Fail("logger-perturbs-execution", fmt.Sprintf("with Logger (%s) the interrupt request state on exit is %d, without it %d", kind, A.s.CPU.Interrupt, B.s.CPU.Interrupt), det())
					continue
				}
				if loggerDetached {
					w.cells["twin:logger-detached-by-a-callback"]++
					continue
				}
				if len(cw.lines) != len(pres) {
					r.Fail("trace-line-count", fmt.Sprintf("%d trace lines for %d executed instructions", len(cw.lines), len(pres)), det())
					continue
				}
				if len(plan) > 0 || pendingAtEntry > 0 {
					// lines next to interrupt entries and acting callbacks are not judged: only that tracing
					// changed nothing
					w.cells["twin:with-callbacks-or-interrupts"]++
					continue
				}
				// the memory each line saw is the memory before that step: replay B's writes lazily
				replay := img.Clone()
				replay.NoRdSet = true
				w.rig.loadPrim(s, stale, g)
				okAll := true
				for li, line := range cw.lines {
					okL, op := checkTraceLine(r, "cpu65c816", line, pres[li], replay, book, pres[li].PC, det)
					r.Eval(1)
					if !okL {
						okAll = false
						break
					}
					e := 0
					if pres[li].E {
						e = 1
					}
					w.cells[fmt.Sprintf("line:op%02x:e%d:mx%d:run", op, e, pres[li].P>>4&3)]++
					if li+1 < len(cw.lines) {
						w.rig.stepPrim(replay)
					}
				}
				if okAll {
					w.cells["twin:"+kind]++
				}
				// cpualt: stepping with the disassembler interleaved must not change anything
				m1, m2 := img.Clone(), img.Clone()
				m1.NoRdSet, m2.NoRdSet = true, true
				w.rig.loadPrim(s, stale, g)
				w.rig.loadAltFromPrim()
				steps := len(pres)
				var sink strings.Builder
				var pan interface{}
				for j := 0; j < steps && pan == nil; j++ {
					w.rig.am = m1
					pan = vf.Try(func() { w.rig.alt.DisassembleCurrentPC(&sink) })
					if pan == nil {
						pan = w.rig.stepAlt(m1).pan
					}
				}
				s1, c1 := absAlt(w.rig.alt), w.rig.alt.AllCycles
				w.rig.loadPrim(s, stale, g)
				w.rig.loadAltFromPrim()
				var pan2 interface{}
				for j := 0; j < steps && pan2 == nil; j++ {
					pan2 = w.rig.stepAlt(m2).pan
				}
				s2, c2 := absAlt(w.rig.alt), w.rig.alt.AllCycles
				if pan == nil && pan2 == nil {
					if d := diffState(s1, s2); len(d) > 0 || c1 != c2 {
						r.Fail("alt-trace-perturbs-execution", fmt.Sprintf("cpualt traced: {%v} cycles=%d; untraced: {%v} cycles=%d", s1, c1, s2, c2), det())
					} else if a, same := mem.SameWrites(m1, m2); !same {
						r.Fail("alt-trace-perturbs-memory", fmt.Sprintf("memory differs at $%06x", a), det())
					} else {
						w.cells["twin:cpualt"]++
					}
				}
				if ci == 0 && i == 0 && len(cw.lines) > 0 {
					r.Sample(map[string]interface{}{"start": s.String(), "first_trace_line": cw.lines[0], "lines": len(cw.lines)})
				}
			}
		})
	}

	if r.Phase("operand-shapes") && r.OnlyPhase == "" {
		// consistency: one shape per (interpreter, mode, length); distinctness between data addressing modes
		book.mu.Lock()
		data := map[string]bool{"dp": true, "dp,X": true, "dp,Y": true, "(dp)": true, "(dp,X)": true, "(dp),Y": true, "[dp]": true, "[dp],Y": true, "abs": true, "abs,X": true,
			"abs,Y": true, "long": true, "long,X": true, "(abs)": true, "(abs,X)": true, "[abs]": true, "sr,S": true, "(sr,S),Y": true}
		seen := map[string]string{}
		for key, shapes := range book.byMode {
			if len(shapes) != 1 {
				var l []string
				for s := range shapes {
					l = append(l, s)
				}
				r.Fail("trace-shape-inconsistent", fmt.Sprintf("%s is rendered with %d different shapes: %q", key, len(shapes), l), nil)
				continue
			}
			parts := strings.SplitN(key, ":", 2)
			who, mode := parts[0], parts[1][:strings.LastIndex(parts[1], "/")]
			if !data[mode] {
				continue
			}
			for s := range shapes {
				k2 := who + "|" + s
				if other, dup := seen[k2]; dup && other != mode {
					r.Fail("trace-shape-ambiguous", fmt.Sprintf("%s renders addressing modes %s and %s identically (%q)", who, other, mode, s), nil)
				}
				seen[k2] = mode
			}
			r.Cell("shape:" + key)
		}
		book.mu.Unlock()
		r.Eval(int64(len(seen)))
	}
	if r.Phase("real-system-twin") {
		// the same question on the emulator as CreateEmulator builds it, with the program living in each
		// kind of memory the console has: ROM, work RAM and its low mirror, cartridge RAM and the register
		// window (whose device is not plain storage on a real console)
		n := r.N(1920, 96000)
		chunks := 16
		r.Parallel(min(ncpu, 8), chunks, func(wi, ci int) {
			g := r.Rand("realsys").Fork(uint64(ci))
			cells := map[string]int64{}
			defer r.MergeCells(cells)
			var A, B *emulator.System
			fresh := func() bool {
				A, B = new(emulator.System), new(emulator.System)
				fill := g.U64()
				for _, s := range []*emulator.System{A, B} {
					x := fill
					for _, arr := range [][]byte{s.ROM[:0x200000], s.WRAM[:], s.SRAM[:]} {
						for i := range arr {
							x = x*6364136223846793005 + 1442695040888963407
							arr[i] = byte(x >> 56)
						}
					}
					if err := s.CreateEmulator(); err != nil {
						r.Fail("create-emulator", err.Error(), nil)
						return false
					}
				}
				return true
			}
			if !fresh() {
				return
			}
			for i := 0; i < n/chunks && !r.TooMany(); i++ {
				var start uint32
				where := ""
				switch g.Intn(7) {
				case 0:
					start, where = uint32(g.Intn(0x40))<<16|uint32(0x8000+g.Intn(0x7F00)), "rom"
				case 1:
					start, where = 0x7E0000+uint32(g.Intn(0x1FF00)), "wram"
				case 2:
					start, where = uint32(g.Intn(0x40))<<16|uint32(g.Intn(0x1F00)), "wram-low-mirror"
				case 3:
					start, where = 0x700000+uint32(g.Intn(0x7F00)), "sram"
				case 4:
					// code that abuts a hole in the map: the last bytes of cartridge RAM, of the register
					// window in the banks without ROM, of a ROM bank before an empty one
					start, where = []uint32{0x707FF0, 0x717FF4, 0x407FF8, 0x6F7FF0, 0xC07FF2, 0x3FFFF0, 0xBFFFF4}[g.Intn(7)]+uint32(g.Intn(8)), "next-to-a-hole"
				default:
					// the register window: anywhere, and often right around the well-known registers
					off := uint32(0x2000 + g.Intn(0x5F00))
					if g.Bool() {
						regs := []uint32{0x2100, 0x2137, 0x2140, 0x2180, 0x4016, 0x4200, 0x4210, 0x4211, 0x4212, 0x4218, 0x4300, 0x420B}
						off = regs[g.Intn(len(regs))] - uint32(g.Intn(4))
					}
					start, where = uint32(g.Intn(0x40))<<16|off, "register-window"
				}
				// the program: random instructions, operand bytes with either top bit
				var st ref.State
				st = genState(g)
				if g.Intn(3) == 0 {
					st = genEmuState(g)
				}
				st.K, st.PC = byte(start>>16), uint16(start)
				st.DBR = []byte{0x00, 0x7E, 0x7F, 0x80, 0x3F, 0x70}[g.Intn(6)]
				st.D = uint16(g.Intn(0x1E00))
				if !st.E {
					st.S = uint16(0x0100 + g.Intn(0x1E00))
				}
				tmpImg := mem.New(g.U64())
				genProgram(g, &st, tmpImg, 24+g.Intn(40))
				plen := 24 + 40 + 3
				prog := make([]byte, plen)
				for j := range prog {
					prog[j] = tmpImg.Peek(uint32(st.K)<<16 | uint32(st.PC+uint16(j)))
				}
				// most transfers of control would leave the mapped part of this console's map at once:
				// keep one in four (a static walk with the start widths finds the instruction starts)
				pw := st.P
				if st.E {
					pw |= 0x30
				}
				for j := 0; j < plen; {
					op := prog[j]
					switch ref.MnemNames[ref.Table[op].M] {
					case "jmp", "jml", "jsr", "jsl", "rts", "rtl", "rti", "brk", "cop", "stp", "wai", "mvn", "mvp", "brl", "bra":
						if g.Intn(4) != 0 {
							prog[j] = 0xEA
							op = 0xEA
						}
					}
					l := ref.Len(op, pw)
					if (op == 0xC2 || op == 0xE2) && j+1 < plen {
						if op == 0xC2 {
							pw &^= prog[j+1] & 0x30
						} else {
							pw |= prog[j+1] & 0x30
						}
						if st.E {
							pw |= 0x30
						}
					}
					j += l
				}
				if where == "next-to-a-hole" {
					// one-byte instructions up to the last mapped byte ($xx7FFF / $xxFFFF)
					endOff := uint32(0x7FFF)
					if start&0xFFFF >= 0x8000 {
						endOff = 0xFFFF
					}
					plen = int(endOff - start&0xFFFF + 1)
					prog = prog[:plen]
					for j := range prog {
						prog[j] = []byte{0xEA, 0xE8, 0xC8, 0x1A, 0x18}[g.Intn(5)]
					}
				}
				target := start&0xFF0000 | uint32(uint16(start)+uint16(g.Intn(plen)))
				if where == "next-to-a-hole" && g.Intn(3) != 0 {
					target = start + uint32(plen) - uint32(g.Intn(2)) // the last instruction, or the first unmapped address
				}
				if g.Intn(3) == 0 {
					target = g.U32() & 0xFFFFFF
				}
				budget := uint64(20 + g.Intn(300))
				loadSeed := g.U64()
				run := func(s *emulator.System, logged bool) (pan interface{}, lines int) {
					for j, b := range prog {
						a := uint32(st.K)<<16 | uint32(st.PC+uint16(j))
						if p := vf.Try(func() { s.Bus.EaWrite(a, b) }); p != nil {
							return fmt.Sprint("program area not writable: ", p), 0
						}
					}
					tmp := &cpuRig{bus: &s.Bus}
					tmp.loadPrim(st, false, vf.NewRng(loadSeed))
					s.CPU = tmp.prim
					var cw *countWriter
					s.Logger = nil
					if logged {
						cw = &countWriter{}
						s.Logger = cw
					}
					pan = vf.Try(func() { s.RunUntil(target, budget) })
					s.Logger = nil
					if cw != nil {
						lines = cw.writes
					}
					return
				}
				panB, _ := run(B, false)
				panA, lines := run(A, true)
				r.Eval(1)
				det := func() interface{} {
					return map[string]interface{}{"program_at": fmt.Sprintf("$%06x", start), "memory": where, "program": vf.Hex(prog), "start": st.String(), "target": fmt.Sprintf("$%06x", target), "budget": budget}
				}
				sa, sb := absPrim(&A.CPU), absPrim(&B.CPU)
				bad := ""
				switch {
				case (panA != nil) != (panB != nil):
					// a run that faults (PC or data in an unmapped area) faults with or without the tracer
					bad = fmt.Sprintf("program in %s at $%06x: the logged run ended with %v, the unlogged run with %v", where, start, panA, panB)
				case panA != nil:
					cells["real:both-faulted"]++
					if ci == 0 && cells["real:both-faulted"] < 12 {
						r.Sample(map[string]interface{}{"fault": fmt.Sprint(panB), "case": det()})
					}
				case len(diffState(sa, sb)) > 0 || A.CPU.AllCycles != B.CPU.AllCycles:
					bad = fmt.Sprintf("program in %s at $%06x: with Logger {%v} cycles=%d; without {%v} cycles=%d (differing %v)", where, start, sa, A.CPU.AllCycles, sb, B.CPU.AllCycles, diffState(sa, sb))
				case !bytes.Equal(A.WRAM[:], B.WRAM[:]) || !bytes.Equal(A.SRAM[:], B.SRAM[:]) || !bytes.Equal(A.ROM[:0x200000], B.ROM[:0x200000]):
					bad = fmt.Sprintf("program in %s at $%06x: ROM/WRAM/SRAM contents differ between the logged and the unlogged run", where, start)
				default:
					for a := uint32(0x2000); a < 0x8000; a++ {
						if va, vb := A.Bus.EaRead(a), B.Bus.EaRead(a); va != vb {
							bad = fmt.Sprintf("program in %s at $%06x: register window byte $%04x is %02x after the logged run, %02x after the unlogged run", where, start, a, va, vb)
							break
						}
					}
				}
				if bad != "" {
					r.Fail("logger-perturbs-execution:"+where, bad, det())
					if !fresh() {
						return
					}
					continue
				}
				if panA != nil || panB != nil {
					// faulted runs leave the two systems in states that need not match: bring A back to B
					copy(A.ROM[:0x200000], B.ROM[:0x200000])
					copy(A.WRAM[:], B.WRAM[:])
					copy(A.SRAM[:], B.SRAM[:])
					for a := uint32(0x2000); a < 0x8000; a++ {
						A.Bus.EaWrite(a, B.Bus.EaRead(a))
					}
					continue
				}
				_ = lines
				cells["real:"+where]++
			}
		})
	}
	if r.OnlyPhase == "" {
		for op := 0; op < 256; op++ {
			r.Require(fmt.Sprintf("line:op%02x:e0:mx0%s", op, map[bool]string{true: ":backward", false: ""}[ref.Table[op].Mode == ref.Rel8]))
		}
		for _, c := range []string{"twin:writer", "twin:reserver", "twin:bufio", "twin:func-adapter", "twin:value-struct", "twin:cpualt", "twin:ended-at-target-with-interrupt-pending", "twin:with-callbacks-or-interrupts", "real:rom", "real:wram", "real:wram-low-mirror", "real:sram", "real:register-window", "real:next-to-a-hole", "line:opd0:e0:mx3:forward", "line:op80:e1:mx3:backward"} {
			r.Require(c)
		}
	}
}
