package props

import (
	"bytes"
	"errors"
	"fmt"
	"io"
	"os"
	"path/filepath"
	"runtime"
	"strings"
	"sync"
	"sync/atomic"
	"time"

	snes "github.com/alttpo/snes"
	"github.com/alttpo/snes/asm"
	"github.com/alttpo/snes/color15"
	"github.com/alttpo/snes/emulator"
	"github.com/alttpo/snes/emulator/bus"
	"github.com/alttpo/snes/emulator/cpu65c816"
	"github.com/alttpo/snes/emulator/cpualt"
	"github.com/alttpo/snes/mapping/util"

	"verif/internal/mem"
	"verif/internal/ref"
	"verif/internal/vf"
)

func init() { reg("C18", C18) }

const (
	kSystem = iota
	kPrim
	kAlt
	kEmitter
	kROM
	kMapping
	kRegion
	kColour
	nKinds
)

var kindNames = [nKinds]string{"system+trace", "cpu65c816+bus", "cpualt", "emitter", "rom+header", "mapping", "regionnames", "colour"}

// c18actor owns one instance of every object kind; nothing in it is shared.
type c18actor struct {
	id   int
	sys  *emulator.System
	rig  *cpuRig
	dig  uint64
	ops  [nKinds]int64
	over [nKinds][nKinds]int64
	cur  *int32 // published current kind (+1), read by the others
}

func mixDigest(d uint64, bs ...byte) uint64 {
	for _, b := range bs {
		d ^= uint64(b)
		d *= 1099511628211
	}
	return d
}
func mixU64(d uint64, v uint64) uint64 {
	for i := 0; i < 8; i++ {
		d = mixDigest(d, byte(v>>(8*uint(i))))
	}
	return d
}
func mixStr(d uint64, s string) uint64 {
	for i := 0; i < len(s); i++ {
		d = mixDigest(d, s[i])
	}
	return d
}
func mixState(d uint64, s ref.State) uint64 { return mixStr(d, s.String()) }

// callWriter: the caller's writer sees a sequence of Write calls, not just bytes (a line-oriented sink,
// a writer that stamps or fails per call): the digest covers where each call begins and ends.
type callWriter struct {
	d     uint64
	calls int
}

func (w *callWriter) Write(p []byte) (int, error) {
	w.calls++
	w.d = mixDigest(mixU64(w.d^0x9E3779B97F4A7C15, uint64(len(p))), p...)
	return len(p), nil
}

type failWriter struct {
	after, n int
	sb       strings.Builder
}

func (w *failWriter) Write(p []byte) (int, error) {
	if w.n >= w.after {
		return 0, io.ErrClosedPipe
	}
	w.n++
	w.sb.Write(p)
	return len(p), nil
}

func newActor(id int) *c18actor {
	return &c18actor{id: id, rig: newRig(), cur: new(int32)}
}

// one operation of the given kind; returns its result digest.
// c18progress counts completed operations of all actors; the stall supervisor watches it.
var c18progress atomic.Int64

// superviseStalls: no actor operation takes longer than milliseconds. When none has completed for a
// long time the supervisor looks at the goroutine stacks: goroutines parked on a lock, channel or
// condition inside library code while no goroutine is running library code can never be woken - an
// instance is blocked for ever by what another instance did. The clock only decides when to look; the
// verdict comes from the stacks (anything else is left to the watchdog as inconclusive).
func superviseStalls(r *vf.Run) {
	go func() {
		last, stalls := c18progress.Load(), 0
		for {
			time.Sleep(2 * time.Second)
			cur := c18progress.Load()
			if cur != last {
				last, stalls = cur, 0
				continue
			}
			stalls++
			if stalls < 30 {
				continue
			}
			stalls = 0
			buf := make([]byte, 8<<20)
			buf = buf[:runtime.Stack(buf, true)]
			var parked []string
			running := false
			for _, blk := range strings.Split(string(buf), "\n\n") {
				if !strings.Contains(blk, "github.com/alttpo/snes") {
					continue
				}
				head := blk
				if i := strings.IndexByte(blk, '\n'); i >= 0 {
					head = blk[:i]
				}
				isParked := false
				for _, st := range []string{"[sync.Mutex.Lock", "[sync.RWMutex", "[semacquire", "[chan receive", "[chan send", "[select", "[sync.Cond.Wait", "[sync.WaitGroup.Wait"} {
					if strings.Contains(head, st) {
						isParked = true
					}
				}
				if isParked {
					lines := strings.Split(blk, "\n")
					if len(lines) > 12 {
						lines = lines[:12]
					}
					parked = append(parked, strings.Join(lines, "\n"))
				} else {
					running = true
				}
			}
			if len(parked) > 0 && !running {
				r.Fail("instance-blocked-forever", fmt.Sprintf("no operation completed for a minute and %d goroutines are parked inside library code on a lock/channel that no running goroutine can release, e.g. %s", len(parked), strings.ReplaceAll(parked[0], "\n", " | ")), parked)
				os.Exit(r.Finish())
			}
		}
	}()
}

func (a *c18actor) op(kind int, g *vf.Rng) (d uint64) {
	d = 1469598103934665603
	defer func() {
		if e := recover(); e != nil {
			d = mixStr(d, fmt.Sprint("panic:", e))
		}
		c18progress.Add(1)
	}()
	switch kind {
	case kSystem:
		s := a.sys
		// program in ROM bank $00 ($00:8000 = ROM[0]); data accesses go to WRAM / FakeHW / ROM of this system
		st := genState(g)
		st.K, st.PC = 0, 0x8000
		st.DBR = []byte{0x00, 0x7E, 0x7F, 0x80, 0x3F}[g.Intn(5)]
		st.D = uint16(g.Intn(0x1F00))
		st.S = 0x1FF
		img := mem.New(g.U64())
		genProgram(g, &st, img, 60)
		for i := 0; i < 256; i++ {
			s.ROM[i] = img.Peek(uint32(0x8000 + i))
		}
		if g.Intn(5) == 0 {
			// error paths too: after a few instructions the program jumps into a part of the map where
			// nothing is attached; the run faults (with the tracer attached) and the host recovers
			at := 2 + g.Intn(12)
			copy(s.ROM[at:], []byte{0x5C, byte(g.Intn(256)), byte(0x80 + g.Intn(0x80)), byte(0x40 + g.Intn(0x30))})
		}
		tmp := &cpuRig{bus: &s.Bus}
		tmp.loadPrim(st, false, g)
		s.CPU = tmp.prim
		var lg callWriter
		s.Logger = &lg
		ret := s.RunUntil(0x008000+uint32(g.Intn(200)), uint64(100+g.Intn(300)))
		d = mixState(d, absPrim(&s.CPU))
		d = mixU64(d, s.CPU.AllCycles)
		d = mixU64(d, lg.d)
		if ret {
			d = mixDigest(d, 1)
		}
		d = mixDigest(d, s.WRAM[:64]...)
	case kPrim, kAlt:
		st := genState(g)
		if g.Intn(3) == 0 {
			st = genEmuState(g)
		}
		img := mem.New(g.U64())
		genProgram(g, &st, img, 40)
		m := img.Clone()
		m.NoRdSet = true
		a.rig.loadPrim(st, g.Bool(), g)
		a.rig.loadAltFromPrim()
		var out []byte
		for i := 0; i < 30; i++ {
			var res stepRes
			if kind == kPrim {
				if i%8 == 0 {
					a.rig.bm.M = m
					out = a.rig.prim.DisassembleCurrentPC(out[:0])
					d = mixDigest(d, out...)
				}
				res = a.rig.stepPrim(m)
			} else {
				if i%8 == 0 {
					a.rig.am = m
					var sb callWriter
					a.rig.alt.DisassembleCurrentPC(&sb)
					d = mixU64(d, sb.d)
				}
				res = a.rig.stepAlt(m)
			}
			if res.pan != nil {
				d = mixStr(d, fmt.Sprint(res.pan))
				break
			}
			d = mixDigest(d, byte(res.cycles))
		}
		if kind == kPrim {
			d = mixState(d, absPrim(&a.rig.prim))
		} else {
			d = mixState(d, absAlt(a.rig.alt))
		}
		for k, v := range m.Wr {
			_ = k
			_ = v
		}
		d = mixU64(d, uint64(len(m.Wr)))
	case kEmitter:
		calls, _, _ := genHistory(g, histOpts{maxCalls: 40, listing: true, dataBlocks: g.Intn(2) == 0, withRefs: true, withDup: g.Intn(4) == 0})
		e := asm.NewEmitter(make([]byte, 8192), true)
		sp := g.Intn(len(calls) + 1)
		for _, c := range calls[:sp] {
			invoke(e, c)
		}
		cl := e.Clone(make([]byte, 8192))
		for _, c := range calls[sp:] {
			invoke(cl, c)
		}
		e.Append(cl)
		if g.Intn(3) == 0 {
			// error paths too: a writer that fails after a few lines
			fw := &failWriter{after: g.Intn(6)}
			err1 := e.WriteTextTo(fw)
			fw2 := &failWriter{after: g.Intn(6)}
			err2 := e.WriteHexTo(fw2)
			d = mixStr(d, fmt.Sprint(err1 != nil, err2 != nil, fw.n, fw2.n))
			d = mixStr(d, fw.sb.String())
		}
		var lw callWriter
		_ = e.WriteTextTo(&lw)
		_ = e.WriteHexTo(&lw)
		d = mixU64(d, lw.d)
		t1, _, _ := listText(e)
		h1, _, _ := listHex(e)
		d = mixDigest(d, e.Bytes()...)
		d = mixStr(d, t1)
		d = mixStr(d, h1)
		fin, _ := finalizeOutcome(e)
		d = mixStr(d, fin)
		if fin == "ok" { // after a failed Finalize the patched subset depends on map iteration order
			d = mixDigest(d, e.Bytes()...)
		}
		d = mixU64(d, uint64(e.PC())<<8|uint64(e.Flags()))
	case kROM:
		img := g.Bytes(0x10000)
		rom, err := snes.NewROM("c18", img)
		if err != nil {
			return mixStr(d, err.Error())
		}
		d = mixStr(d, fmt.Sprintf("%+v", flattenHeader(&rom.Header)))
		d = mixU64(d, uint64(rom.Header.HeaderVersion()))
		d = mixU64(d, uint64(rom.Header.Score(0x7FB0)))
		_ = rom.WriteHeader()
		var buf bytes.Buffer
		_ = rom.Header.WriteHeader(&buf)
		d = mixDigest(d, buf.Bytes()...)
		addr := uint32(g.Intn(2))<<16 | uint32(g.Intn(0x10000))
		w := rom.BusWriter(addr)
		n, werr := w.Write(g.Bytes(1 + g.Intn(40)))
		d = mixStr(d, fmt.Sprint(n, werr))
		rd := rom.BusReader(addr)
		b := make([]byte, 64)
		n, rerr := io.ReadFull(rd, b)
		d = mixDigest(d, b[:n]...)
		d = mixStr(d, fmt.Sprint(rerr))
		d = mixDigest(d, img[0x7FB0:0x8000]...)
	case kMapping:
		for i := 0; i < 200; i++ {
			ad := g.U32() & 0xFFFFFF
			for _, m := range mappers {
				p, err := m.b2p(ad)
				d = mixU64(d, uint64(p))
				if err != nil {
					if !errors.Is(err, util.ErrUnmappedAddress) {
						d = mixStr(d, "foreign error")
					}
					d = mixStr(d, err.Error())
				}
				b, err := m.p2b(ad)
				d = mixU64(d, uint64(b))
				if err != nil {
					d = mixStr(d, err.Error())
				}
			}
			d = mixU64(d, uint64(util.BankToLinear(ad)))
		}
	case kRegion:
		for i := 0; i < 64; i++ {
			r := snes.Region(g.Intn(0x18))
			name, ok := snes.RegionNames[r]
			d = mixStr(d, fmt.Sprint(name, ok))
		}
	case kColour:
		for i := 0; i < 500; i++ {
			c := color15.Color(g.U16())
			r, gg, b := c.ToRGB()
			d = mixDigest(d, r, gg, b, c.Luminosity())
			d = mixU64(d, uint64(c.MulDiv(g.U8(), uint8(1+g.Intn(255)))))
			d = mixU64(d, uint64(color15.ToColor15(g.U8(), g.U8(), g.U8())))
		}
	}
	return d
}

// run performs the actor's whole workload for one configuration.
func (a *c18actor) run(seed uint64, rounds, opsPerRound int, all []*c18actor, concurrent bool) {
	a.dig = 1469598103934665603
	// a fresh System per run: its WRAM / I/O state persists across operations
	a.sys = new(emulator.System)
	if err := a.sys.CreateEmulator(); err != nil {
		panic(err)
	}
	for round := 0; round < rounds; round++ {
		g := vf.NewRng(seed ^ uint64(a.id+1)*0x9E3779B97F4A7C15 ^ uint64(round+1)*0xD1342543DE82EF95)
		g.U64()
		sched := vf.NewRng(seed ^ uint64(a.id)<<32 ^ uint64(round))
		for i := 0; i < opsPerRound; i++ {
			kind := g.Intn(nKinds)
			if kind == kSystem && g.Intn(2) == 0 {
				kind = kEmitter // systems are the most expensive kind
			}
			if concurrent {
				atomic.StoreInt32(a.cur, int32(kind+1))
				for _, o := range all {
					if o != a {
						if k := atomic.LoadInt32(o.cur); k > 0 {
							a.over[kind][k-1]++
						}
					}
				}
			}
			d := a.op(kind, g.Fork(uint64(i)))
			a.dig = mixU64(a.dig, d)
			a.ops[kind]++
			if concurrent {
				atomic.StoreInt32(a.cur, 0)
				if sched.Intn(4) == 0 { // separate stream: scheduling noise must not change the workload
					runtime.Gosched()
				}
			}
		}
	}
}

func coldRng(seed uint64, id, kind int) *vf.Rng {
	g := vf.NewRng(seed ^ uint64(id+1)*0x9E3779B97F4A7C15 ^ uint64(kind+1)<<40)
	g.U64()
	return g
}

// runCold repeats an actor's cold-start sequence alone: one operation of every kind.
func (a *c18actor) runCold(seed uint64) uint64 {
	d := uint64(1469598103934665603)
	a.sys = new(emulator.System)
	if err := a.sys.CreateEmulator(); err != nil {
		panic(err)
	}
	for kind := 0; kind < nKinds; kind++ {
		d = mixU64(d, a.op(kind, coldRng(seed, a.id, kind)))
	}
	return d
}

func sharedDigest() [4]uint64 {
	var msg uint64 = 1469598103934665603
	msg = mixStr(msg, util.ErrUnmappedAddress.Error())
	msg = mixStr(msg, fmt.Sprintf("%p", util.ErrUnmappedAddress))
	d := libSharedDigest() // (zeros unless built with the library's hooks: see hooks_on.go)
	return [4]uint64{d[0], d[1], d[2], msg}
}

func C18(r *vf.Run) {
	r.Rule = "G goroutines (several G / GOMAXPROCS configurations), each owning its own emulator.System (tracing on), cpu65c816.CPU+bus.Bus, cpualt.CPU, asm.Emitter (listing, Clone/Append, Finalize), snes.ROM+Header (BusReader/BusWriter incl. the shared always-failing instance), and calling the eight mapping functions, RegionNames and the colour functions, under the Go race detector, preceded by a cold-start phase in which the first use of every object kind in the process happens on 8 goroutines at once; followed by 40+ separately created CPUs that are all inside their own program-counter callbacks at the same instant, and by emitters of common ancestry (same fragment appended / same parent cloned beforehand) each driven by its own goroutine; every actor's result digest is compared with the digest of the same workload run alone; the package-level state digest (hook) is compared before/after every configuration. A cell is a pair of operation kinds observed overlapping in time"
	r.Assume = []string{"built with -race by ./check (race reports are read from the GORACE log, the exit code is not trusted)", "sharing one instance between goroutines is not promised and not exercised", "a racy access on a path the workload never drives is not seen"}
	raceEnabled := false
	logPath := ""
	for _, kv := range strings.Fields(os.Getenv("GORACE")) {
		if strings.HasPrefix(kv, "log_path=") {
			logPath = kv[len("log_path="):]
		}
	}
	raceEnabled = raceBuild
	r.SetExtra("race_detector_enabled", raceEnabled)
	if !raceEnabled {
		r.Inconclusive("binary not built with -race (run through ./check C18)")
	}

	type cfg struct{ g, procs, rounds, ops int }
	var cfgs []cfg
	if r.Quick() {
		cfgs = []cfg{{2, 1, 2, 60}, {8, 4, 2, 40}, {16, 16, 2, 30}}
	} else {
		cfgs = []cfg{{2, 1, 5, 400}, {2, 16, 5, 400}, {8, 4, 5, 300}, {8, 16, 5, 300}, {16, 16, 5, 250}, {32, 16, 5, 150}, {32, 4, 5, 100}, {4, 2, 5, 300}, {16, 1, 3, 100}}
	}
	maxG := 0
	for _, c := range cfgs {
		if c.g > maxG {
			maxG = c.g
		}
	}
	rigLight = true // dozens of rigs alive at once; device routing is judged elsewhere
	superviseStalls(r)
	if !r.Phase("concurrent-instances") {
		return
	}
	// cold start: the very first use of every kind of object in this process happens on 8 goroutines
	// released at the same instant (lazy initialisation in the library must be safe); the same
	// sequences are then repeated alone and compared
	// the objects made in the cold-start phase are the first of their kinds in this process. They stay
	// alive, and while later blocks run their instances at the same time, the first-born are busy too
	// (withElders): whatever the library may have kept from the first instance it ever saw is then in motion
	var elders []*c18actor
	withElders := func(fn func()) {
		var stop atomic.Bool
		var wg sync.WaitGroup
		for i, a := range elders {
			wg.Add(1)
			go func(i int, a *c18actor) {
				defer wg.Done()
				g := vf.NewRng(uint64(i)*977 + 5)
				for n := 0; !stop.Load(); n++ {
					kind := []int{kPrim, kAlt, kSystem, kEmitter, kROM}[n%5]
					vf.Try(func() { a.op(kind, g) })
				}
			}(i, a)
		}
		fn()
		stop.Store(true)
		wg.Wait()
	}
	{
		const G = 8
		seed := r.Rand("cold").U64()
		before := sharedDigest()
		cold := make([]uint64, G)
		coldActors := make([]*c18actor, G)
		defer func() { elders = nil }()
		vf.Parallel(G, G, func(w, i int) { // the constructors are first used concurrently as well
			coldActors[i] = newActor(i)
			coldActors[i].sys = new(emulator.System)
			if err := coldActors[i].sys.CreateEmulator(); err != nil {
				panic(err)
			}
			cold[i] = 1469598103934665603
		})
		for kind := 0; kind < nKinds; kind++ {
			// one barrier per kind: all 8 goroutines enter the kind's first-use code at the same instant,
			// with no synchronisation between them that could hide an unsynchronised lazy initialisation
			vf.Parallel(G, G, func(w, i int) {
				cold[i] = mixU64(cold[i], coldActors[i].op(kind, coldRng(seed, i, kind)))
			})
		}
		if sharedDigest() != before {
			r.Fail("shared-state-changed", "package-level state digest changed during the cold-start phase", nil)
		}
		for i := 0; i < G; i++ {
			if solo := newActor(i).runCold(seed); solo != cold[i] {
				r.Fail("result-differs-from-solo", fmt.Sprintf("cold start: actor %d produced digest %016x when every object kind was first used concurrently, %016x alone", i, cold[i], solo), nil)
			}
			r.Eval(nKinds)
		}
		r.Cell("cold-start:first-use-concurrent")
		elders = coldActors
	}
	actors := make([]*c18actor, maxG)
	for i := range actors {
		actors[i] = newActor(i)
	}
	oldProcs := runtime.GOMAXPROCS(0)
	defer runtime.GOMAXPROCS(oldProcs)
	totalOps := int64(0)
	for ci, c := range cfgs {
		seed := r.Rand(fmt.Sprintf("cfg%d", ci)).U64()
		before := sharedDigest()
		// solo digests, sequentially
		solo := make([]uint64, c.g)
		for i := 0; i < c.g; i++ {
			actors[i].run(seed, c.rounds, c.ops, nil, false)
			solo[i] = actors[i].dig
			actors[i].ops = [nKinds]int64{}
		}
		if sharedDigest() != before {
			r.Fail("shared-state-changed-solo", "package-level state digest changed during a sequential run", nil)
		}
		runtime.GOMAXPROCS(c.procs)
		var wg sync.WaitGroup
		start := make(chan struct{})
		for i := 0; i < c.g; i++ {
			wg.Add(1)
			go func(a *c18actor) {
				defer wg.Done()
				<-start
				a.run(seed, c.rounds, c.ops, actors[:c.g], true)
			}(actors[i])
		}
		close(start)
		wg.Wait()
		runtime.GOMAXPROCS(oldProcs)
		after := sharedDigest()
		if after != before {
			r.Fail("shared-state-changed", fmt.Sprintf("package-level state digest changed during configuration G=%d procs=%d: %x -> %x", c.g, c.procs, before, after), nil)
		}
		for i := 0; i < c.g; i++ {
			if actors[i].dig != solo[i] {
				r.Fail("result-differs-from-solo", fmt.Sprintf("configuration G=%d procs=%d: actor %d produced digest %016x concurrently, %016x alone", c.g, c.procs, i, actors[i].dig, solo[i]), map[string]interface{}{"config": fmt.Sprint(c), "seed": seed})
			}
			for k := 0; k < nKinds; k++ {
				totalOps += actors[i].ops[k]
				r.Eval(actors[i].ops[k])
				for k2 := 0; k2 < nKinds; k2++ {
					if n := actors[i].over[k][k2]; n > 0 {
						r.CellN("overlap:"+kindNames[k]+"|"+kindNames[k2], n)
					}
				}
				actors[i].ops[k] = 0
			}
			actors[i].over = [nKinds][nKinds]int64{}
		}
		r.Sample(map[string]interface{}{"goroutines": c.g, "gomaxprocs": c.procs, "rounds": c.rounds, "ops_per_round": c.ops, "digest_actor0": fmt.Sprintf("%016x", solo[0])})
	}
	// many CPUs inside their own program-counter callbacks at the same instant: each of G separately
	// created CPUs runs a loop with two breakpoints; in the concurrent run the first callback of every
	// CPU waits (bounded spin, no clock) until all G have arrived, so G callbacks are in progress at once
	{
		G := r.N(40, 96)
		type cbActor struct {
			c    cpu65c816.CPU
			bus  *bus.Bus
			bm   *mem.BusMem
			img  *mem.Image
			hits [2]int
		}
		mk := func(i int) *cbActor {
			a := &cbActor{bm: &mem.BusMem{}}
			b, _ := bus.New()
			if err := b.Attach(a.bm, "all", 0, 0xFFFFFF); err != nil {
				panic(err)
			}
			a.bus = b
			return a
		}
		acts := make([]*cbActor, G)
		for i := range acts {
			acts[i] = mk(i)
		}
		seed := r.Rand("callbacks").U64()
		var arrived int32
		var incomplete int32
		runOne := func(i int, rendezvous bool) uint64 {
			a := acts[i]
			g := vf.NewRng(seed ^ uint64(i+1)*0x9E3779B97F4A7C15)
			st := genState(g)
			st.E, st.K, st.PC, st.S = false, byte(1+i%8), 0x8000, 0x01FF // (several CPUs run at the same addresses)
			st.P &^= 0x08
			img := mem.New(g.U64())
			k := uint32(st.K) << 16
			sled := 6 + g.Intn(10)
			for j := 0; j < sled; j++ {
				img.Ov[k|uint32(0x8000+j)] = []byte{0xEA, 0xE8, 0xC8, 0x1A}[g.Intn(4)]
			}
			img.Ov[k|uint32(0x8000+sled)] = 0x80
			img.Ov[k|uint32(0x8000+sled+1)] = byte(0x100 - sled - 2)
			img.NoRdSet = true
			a.img, a.bm.M = img, img
			tmp := &cpuRig{bus: a.bus}
			tmp.loadPrim(st, false, g)
			a.c = tmp.prim
			c := &a.c
			a.hits = [2]int{}
			first := true
			// half of the hosts register into whatever map the CPU already has (allocating one only if
			// there is none), the others bring their own
			if i%2 == 1 || c.OnPC == nil {
				c.OnPC = map[uint32]func(){}
			}
			var mine []uint32
			defer func() {
				for _, at := range mine {
					delete(c.OnPC, at)
				}
			}()
			for h := 0; h < 2; h++ {
				h := h
				at := k | uint32(0x8000+g.Intn(sled))
				mine = append(mine, at)
				c.OnPC[at] = func() {
					a.hits[h]++
					c.RAl ^= byte(0x11 * (h + 1))
					if rendezvous && first {
						first = false
						atomic.AddInt32(&arrived, 1)
						for spins := 0; atomic.LoadInt32(&arrived) < int32(G); spins++ {
							if spins > 3000000 {
								atomic.AddInt32(&incomplete, 1)
								break
							}
							runtime.Gosched()
						}
					}
				}
			}
			d := uint64(1469598103934665603)
			for step := 0; step < 200; step++ {
				cyc, stopped := c.Step()
				d = mixDigest(d, byte(cyc))
				if stopped {
					break
				}
			}
			d = mixState(d, absPrim(c))
			d = mixU64(d, c.AllCycles)
			d = mixU64(d, uint64(a.hits[0])<<32|uint64(a.hits[1]))
			return d
		}
		solo := make([]uint64, G)
		for i := range acts {
			solo[i] = runOne(i, false)
		}
		conc := make([]uint64, G)
		var wg sync.WaitGroup
		for i := range acts {
			wg.Add(1)
			go func(i int) {
				defer wg.Done()
				conc[i] = runOne(i, true)
			}(i)
		}
		wg.Wait()
		bad := 0
		for i := range acts {
			if conc[i] != solo[i] {
				bad++
				if bad <= 3 {
					r.Fail("result-differs-from-solo", fmt.Sprintf("CPU %d of %d, each inside its own OnPC callback at the same time: digest %016x, %016x alone (callback hits %v)", i, G, conc[i], solo[i], acts[i].hits), nil)
				}
			}
		}
		r.Eval(int64(2 * G))
		if bad == 0 && atomic.LoadInt32(&incomplete) > 0 {
			r.Inconclusive(fmt.Sprintf("only %d of %d CPUs reached their callbacks together", atomic.LoadInt32(&arrived), G))
		} else {
			r.CellN("callbacks-in-progress-at-once", int64(atomic.LoadInt32(&arrived)))
		}
	}
	// a memory map that changes under the running program: every CPU's WDM handler swaps the device
	// behind the very segment it is executing from (a mapper bank switch), while the other CPUs run their
	// own loops; which code each CPU executes next is its own business
	{
		G := 16
		steps := r.N(20000, 200000)
		type bsActor struct {
			c     cpu65c816.CPU
			bus   *bus.Bus
			rom   [2]*fastMem
			ram   *fastMem
			which int
			swaps int
		}
		acts := make([]*bsActor, G)
		for i := range acts {
			a := &bsActor{ram: &fastMem{data: make([]byte, 1<<16), limit: 1 << 62}}
			b, _ := bus.New()
			if err := b.Attach(a.ram, "ram", 0, 0xFFFF); err != nil {
				panic(err)
			}
			for k := 0; k < 2; k++ {
				a.rom[k] = &fastMem{data: make([]byte, 1<<16), limit: 1 << 62}
			}
			// bank A at $00:8000: WDM #i ; INX ; BRA $8000        bank B: WDM #i ; INY ; BRA $8000
			copy(a.rom[0].data[0x8000:], []byte{0x42, byte(i), 0xE8, 0x80, 0xFB})
			copy(a.rom[1].data[0x8000:], []byte{0x42, byte(i), 0xC8, 0x80, 0xFB})
			a.bus = b
			acts[i] = a
		}
		runBS := func(i int) uint64 {
			a := acts[i]
			a.which, a.swaps = 0, 0
			if err := a.bus.Attach(a.rom[0], "rom", 0x8000, 0x800F); err != nil {
				panic(err)
			}
			a.c.Init(a.bus)
			a.c.RK, a.c.PC, a.c.SP = 0, 0x8000, 0x01FF
			a.c.E, a.c.M, a.c.X = 0, 1, 0
			a.c.RX, a.c.RY = 0, 0
			a.c.OnWDM = func(b byte) {
				if a.swaps%3 != 2 { // two swaps out of three traps
					a.which ^= 1
					_ = a.bus.Attach(a.rom[a.which], "rom", 0x8000, 0x800F)
				}
				a.swaps++
			}
			for s := 0; s < steps; s++ {
				a.c.Step()
			}
			a.c.OnWDM = nil
			return mixU64(mixU64(1469598103934665603, uint64(a.c.RX)<<16|uint64(a.c.RY)), a.c.AllCycles)
		}
		solo := make([]uint64, G)
		for i := range solo {
			solo[i] = runBS(i)
		}
		conc := make([]uint64, G)
		vf.Parallel(G, G, func(w, i int) { conc[i] = runBS(i) })
		for i := range conc {
			if conc[i] != solo[i] {
				r.Fail("result-differs-from-solo", fmt.Sprintf("CPU %d of %d, each switching the device behind the segment it executes from while the others run: digest %016x, %016x alone", i, G, conc[i], solo[i]), nil)
				break
			}
		}
		r.Eval(int64(2 * G * steps))
		r.CellN("bank-switching-in-parallel", int64(G))
	}
	// arithmetic in steady state: every goroutine's own CPU runs a long decimal counting loop (SED, then
	// ADC/SBC with a handful of operands it keeps returning to), all at the same time. No callback, no
	// allocation, nothing but the ALU: what one CPU computes may not depend on what the others compute.
	{
		G := 16
		steps := r.N(120000, 1200000)
		type decActor struct {
			c   cpu65c816.CPU
			bus *bus.Bus
			fm  *fastMem
		}
		acts := make([]*decActor, G)
		for i := range acts {
			a := &decActor{fm: &fastMem{data: make([]byte, 1<<16), limit: 1 << 62}}
			b, _ := bus.New()
			if err := b.Attach(a.fm, "ram", 0, 0xFFFF); err != nil {
				panic(err)
			}
			a.bus = b
			acts[i] = a
		}
		seedD := r.Rand("decimal").U64()
		runDec := func(i int) uint64 {
			a := acts[i]
			g := vf.NewRng(seedD ^ uint64(i+1)*0x9E3779B97F4A7C15)
			// program at $00:8000: SED ; loop: ADC #a ; SBC #b ; ADC #c ; ADC #d ; BRA loop  (8-bit)
			ops := []byte{0x05, 0x15, 0x25, 0x26, 0x27, 0x75, 0x21, 0x24, byte(g.Intn(10)) | byte(g.Intn(10))<<4, byte(g.Intn(10)) | byte(g.Intn(10))<<4}
			prog := []byte{0xF8}
			for k := 0; k < 4; k++ {
				op := byte(0x69)
				if k == 1 {
					op = 0xE9
				}
				prog = append(prog, op, ops[(i+k*3)%len(ops)])
			}
			prog = append(prog, 0x80, byte(0x100-len(prog)-1))
			copy(a.fm.data[0x8000:], prog)
			a.c.Init(a.bus)
			a.c.RK, a.c.PC, a.c.SP = 0, 0x8000, 0x01FF
			a.c.E, a.c.M, a.c.X = 0, 1, 1
			a.c.RA, a.c.RAl, a.c.RAh = 0, byte(i), 0
			d := uint64(1469598103934665603)
			for s := 0; s < steps; s++ {
				a.c.Step()
				d = d*1099511628211 ^ uint64(a.c.RAl) ^ uint64(a.c.C)<<8
			}
			return mixU64(d, a.c.AllCycles)
		}
		solo := make([]uint64, G)
		for i := range solo {
			solo[i] = runDec(i)
		}
		conc := make([]uint64, G)
		withElders(func() { vf.Parallel(G, G, func(w, i int) { conc[i] = runDec(i) }) })
		for i := range conc {
			if conc[i] != solo[i] {
				r.Fail("result-differs-from-solo", fmt.Sprintf("CPU %d of %d, each running its own decimal counting loop at the same time: digest of the accumulator sequence %016x, %016x alone", i, G, conc[i], solo[i]), nil)
				break
			}
		}
		r.Eval(int64(2 * G * steps))
		r.CellN("decimal-loops-in-parallel", int64(G))
	}
	// partial memory maps: every goroutine's own cpualt CPU has memory attached for its code bank only; its
	// program keeps loading from addresses nothing is attached to (cpualt answers those from its own bus:
	// the last value it carried) and from its zero page. What one CPU reads there is its own business.
	{
		G := r.N(8, 16)
		steps := r.N(40000, 400000)
		type obActor struct {
			c   *cpualt.CPU
			ram []byte
		}
		acts := make([]*obActor, G)
		for i := range acts {
			a := &obActor{c: newAltCPU(), ram: make([]byte, 1<<16)}
			a.c.Init()
			a.c.Bus.AttachReader(0, 0xFFFF, func(ad uint32) uint8 { return a.ram[ad&0xFFFF] })
			a.c.Bus.AttachWriter(0, 0xFFFF, func(ad uint32, v uint8) { a.ram[ad&0xFFFF] = v })
			acts[i] = a
		}
		seedO := r.Rand("openbus").U64()
		runOB := func(i int) uint64 {
			a := acts[i]
			g := vf.NewRng(seedO ^ uint64(i+1)*0x9E3779B97F4A7C15)
			for k := range a.ram[:0x200] {
				a.ram[k] = g.U8()
			}
			hole1 := uint32(0x400000+g.Intn(0x3E0000)) | uint32(i)<<4
			hole2 := uint32(0x800000+g.Intn(0x7F0000)) | uint32(i)
			// loop: LDA long hole1 ; ADC $10 ; STA $10 ; LDA long,X hole2 ; EOR $11 ; STA $11 ; INX ; BRA loop   (8-bit)
			prog := []byte{0xAF, byte(hole1), byte(hole1 >> 8), byte(hole1 >> 16), 0x65, 0x10, 0x85, 0x10,
				0xBF, byte(hole2), byte(hole2 >> 8), byte(hole2 >> 16), 0x45, 0x11, 0x85, 0x11, 0xE8}
			prog = append(prog, 0x80, byte(0x100-len(prog)-2))
			copy(a.ram[0x8000:], prog)
			c := a.c
			c.Reset()
			c.Bus.M = 0
			c.RK, c.PC, c.SP, c.RD, c.RDBR = 0, 0x8000, 0x01FF, 0, 0
			c.E, c.M, c.X, c.D, c.C = 0, 1, 1, 0, 0
			c.RA, c.RAl, c.RAh, c.RX, c.RXl = 0, byte(i), 0, 0, 0
			c.Stopped = false
			d := uint64(1469598103934665603)
			pan := vf.Try(func() {
				for s := 0; s < steps; s++ {
					c.Step()
					d = d*1099511628211 ^ uint64(c.RAl) ^ uint64(c.C)<<8
				}
			})
			if pan != nil {
				d = mixStr(d, fmt.Sprint("panic:", pan))
			}
			return mixU64(d, uint64(a.ram[0x10])<<8|uint64(a.ram[0x11]))
		}
		solo := make([]uint64, G)
		for i := range solo {
			solo[i] = runOB(i)
		}
		conc := make([]uint64, G)
		withElders(func() { vf.Parallel(G, G, func(w, i int) { conc[i] = runOB(i) }) })
		for i := range conc {
			if conc[i] != solo[i] {
				r.Fail("result-differs-from-solo", fmt.Sprintf("cpualt CPU %d of %d, each with memory attached for its own code bank only and loading from unattached addresses at the same time: digest of the accumulator sequence %016x, %016x alone", i, G, conc[i], solo[i]), nil)
				break
			}
		}
		// ... and a CPU is not influenced by which others exist: the same program on a CPU created and run
		// before any of the others ran gives the same digest as afterwards
		again := runOB(0)
		if again != solo[0] {
			r.Fail("result-differs-from-solo", fmt.Sprintf("cpualt CPU 0 repeats its program after %d other CPUs ran theirs: digest %016x, %016x the first time", G-1, again, solo[0]), nil)
		}
		r.Eval(int64(2 * G * steps))
		r.CellN("cpualt-partial-maps-in-parallel", int64(G))
	}
	// common ancestry: emitters that were separately created but received the same fragment (Append) or
	// were cloned from the same parent, before the goroutines started; afterwards each is driven only by
	// its own goroutine
	{
		G := r.N(16, 48)
		g0 := r.Rand("ancestry")
		labels := []string{"shared_a", "shared_b", "shared_c", "shared_d"}
		build := func() []*asm.Emitter {
			g := vf.NewRng(g0.Fork(1).U64())
			frag := asm.NewEmitter(make([]byte, 4096), true)
			for _, l := range labels {
				for k := 1 + g.Intn(9); k > 0; k-- { // 1..9 pending references: lists with and without spare capacity
					if g.Bool() {
						frag.JMP_abs(l)
					} else {
						frag.BNE(l)
					}
					frag.NOP()
				}
			}
			es := make([]*asm.Emitter, G)
			for i := range es {
				if i%2 == 0 {
					es[i] = asm.NewEmitter(make([]byte, 8192), true)
					es[i].Append(frag)
				} else {
					es[i] = frag.Clone(make([]byte, 8192))
				}
			}
			return es
		}
		drive := func(e *asm.Emitter, i int) uint64 {
			g := vf.NewRng(uint64(i)*0x9E3779B97F4A7C15 + 7)
			d := uint64(1469598103934665603)
			pan := vf.Try(func() {
				for k := 0; k < 6; k++ {
					l := labels[g.Intn(len(labels))]
					for n := g.Intn(4); n > 0; n-- {
						e.NOP()
					}
					if g.Bool() {
						e.JMP_abs(l)
					} else {
						e.BEQ(l)
					}
				}
				for _, l := range labels {
					e.Label(l)
					e.RTS()
				}
				err := e.Finalize()
				d = mixStr(d, fmt.Sprint(err))
				d = mixDigest(d, e.Bytes()...)
				t, _, _ := listText(e)
				d = mixStr(d, t)
			})
			if pan != nil {
				d = mixStr(d, fmt.Sprint("panic:", pan))
			}
			return d
		}
		solo := make([]uint64, G)
		for i, e := range build() {
			solo[i] = drive(e, i)
		}
		conc := make([]uint64, G)
		es := build()
		vf.Parallel(G, G, func(w, i int) { conc[i] = drive(es[i], i) })
		for i := range conc {
			if conc[i] != solo[i] {
				r.Fail("result-differs-from-solo", fmt.Sprintf("emitter %d of %d with common ancestry (same fragment appended / same parent cloned before the goroutines started), driven on its own goroutine: digest %016x, %016x alone", i, G, conc[i], solo[i]), nil)
				break
			}
		}
		r.Eval(int64(2 * G))
		r.CellN("common-ancestry-emitters", int64(G))
	}
	r.SetExtra("library_hooks_build", hooksBuild)
	if exe := os.Getenv("VERIF_BIN_HOOKS"); exe != "" && !hooksBuild {
		// the same monitor on the build that has the library's shared-state digest hooks
		runChildExe(r, exe, "library-hooks-build")
	}
	r.SetExtra("operations", totalOps)
	r.SetExtra("instances_per_kind", maxG)

	// race reports
	reports := 0
	dedup := map[string]int{}
	if logPath != "" {
		files, _ := filepath.Glob(logPath + "*")
		for _, f := range files {
			b, err := os.ReadFile(f)
			if err != nil {
				continue
			}
			blocks := strings.Split(string(b), "WARNING: DATA RACE")
			for _, blk := range blocks[1:] {
				reports++
				// dedupe by the first function of each of the two stacks
				var fns []string
				for _, ln := range strings.Split(blk, "\n") {
					t := strings.TrimSpace(ln)
					if strings.HasSuffix(t, ")") && strings.Contains(t, "(") && !strings.HasPrefix(t, "/") && !strings.Contains(t, " by ") {
						fns = append(fns, t[:strings.Index(t, "(")])
						if len(fns) == 1 {
							continue
						}
					}
					if strings.HasPrefix(t, "Previous ") {
						if len(fns) > 1 {
							fns = fns[:1]
						}
					}
				}
				key := "?"
				if len(fns) > 0 {
					key = fns[0]
				}
				dedup[key]++
				if dedup[key] == 1 {
					head := blk
					if len(head) > 1500 {
						head = head[:1500]
					}
					r.Fail("data-race:"+key, fmt.Sprintf("race detector report in %s", key), head)
				} else {
					r.Fail("data-race:"+key, "race detector report", nil)
				}
			}
		}
	}
	r.SetExtra("race_reports", reports)
	r.SetExtra("race_reports_distinct", len(dedup))
	for _, s := range []string{"overlap:system+trace|", "overlap:cpu65c816+bus|cpu65c816+bus", "overlap:emitter|emitter", "overlap:rom+header|rom+header", "overlap:cpualt|", "overlap:mapping|", "overlap:regionnames|", "overlap:colour|"} {
		r.RequireSub(s)
	}
}
