package props

import (
	"fmt"
	"runtime"
	"strconv"
	"strings"

	"github.com/alttpo/snes/asm"

	"verif/internal/vf"
)

func init() { reg("C15", C15) }

// parseHexListing extracts the 0xNN, tokens (comment tails stripped).
func parseHexListing(s string) ([]byte, error) {
	var out []byte
	for _, line := range strings.Split(s, "\n") {
		if i := strings.Index(line, "//"); i >= 0 {
			line = line[:i]
		}
		for _, tok := range strings.Fields(line) {
			if !strings.HasPrefix(tok, "0x") || !strings.HasSuffix(tok, ",") || len(tok) != 5 {
				return nil, fmt.Errorf("unexpected token %q", tok)
			}
			v, err := strconv.ParseUint(tok[2:4], 16, 8)
			if err != nil {
				return nil, fmt.Errorf("bad token %q", tok)
			}
			out = append(out, byte(v))
		}
	}
	return out, nil
}

type txtLine struct {
	kind  string // base|comment|label|db|ins
	addr  uint32
	bytes []byte
	text  string
}

// parseTextListing parses WriteTextTo output.
func parseTextListing(s string) ([]txtLine, error) {
	var out []txtLine
	lines := strings.Split(s, "\n")
	if len(lines) > 0 && lines[len(lines)-1] == "" {
		lines = lines[:len(lines)-1]
	}
	hex6 := func(t string) (uint32, bool) {
		if len(t) < 6 {
			return 0, false
		}
		v, err := strconv.ParseUint(t[:6], 16, 32)
		return uint32(v), err == nil
	}
	for i := 0; i < len(lines); i++ {
		ln := lines[i]
		switch {
		case strings.HasPrefix(ln, "base $"):
			a, ok := hex6(ln[len("base $"):])
			if !ok || len(ln) != len("base $")+6 {
				return nil, fmt.Errorf("bad base line %q", ln)
			}
			out = append(out, txtLine{kind: "base", addr: a})
		case strings.HasPrefix(ln, "    ; $") && len(ln) == len("    ; $")+6 && i+1 < len(lines) && strings.HasPrefix(lines[i+1], "    db "):
			a, ok := hex6(ln[len("    ; $"):])
			if !ok {
				return nil, fmt.Errorf("bad db address line %q", ln)
			}
			i++
			var bs []byte
			for _, tok := range strings.Split(lines[i][len("    db "):], ", ") {
				if len(tok) != 3 || tok[0] != '$' {
					return nil, fmt.Errorf("bad db token %q in %q", tok, lines[i])
				}
				v, err := strconv.ParseUint(tok[1:], 16, 8)
				if err != nil {
					return nil, fmt.Errorf("bad db token %q", tok)
				}
				bs = append(bs, byte(v))
			}
			out = append(out, txtLine{kind: "db", addr: a, bytes: bs})
		case strings.HasPrefix(ln, "    ; "):
			out = append(out, txtLine{kind: "comment", text: ln[len("    ; "):]})
		case strings.HasPrefix(ln, "    ") || strings.HasPrefix(ln, "!!  "):
			j := strings.LastIndex(ln, " ; $")
			if k := strings.Index(ln, "  !! ERROR"); k >= 0 {
				j = strings.LastIndex(ln[:k], " ; $")
			}
			if j < 0 {
				return nil, fmt.Errorf("instruction line without address: %q", ln)
			}
			rest := ln[j+len(" ; $"):]
			a, ok := hex6(rest)
			if !ok || len(rest) < 8 || rest[6:8] != "  " {
				return nil, fmt.Errorf("bad instruction line %q", ln)
			}
			bt := rest[8:]
			if k := strings.Index(bt, "  !! ERROR"); k >= 0 {
				bt = bt[:k]
			}
			var bs []byte
			for _, tok := range strings.Split(bt, " ") {
				v, err := strconv.ParseUint(tok, 16, 8)
				if err != nil || len(tok) != 2 {
					return nil, fmt.Errorf("bad byte %q in instruction line %q", tok, ln)
				}
				bs = append(bs, byte(v))
			}
			out = append(out, txtLine{kind: "ins", addr: a, bytes: bs, text: strings.TrimSpace(ln[4 : 4+min(5, len(ln)-4)])})
		case strings.HasSuffix(ln, ":"):
			out = append(out, txtLine{kind: "label", text: ln[:len(ln)-1]})
		default:
			return nil, fmt.Errorf("unrecognised line %q", ln)
		}
	}
	return out, nil
}

// checkListings compares both listings of e with Bytes() and the shadow's expected lines.
func checkListings(r *vf.Run, e *asm.Emitter, sh *shadow, when string, calls []hcall) (ok bool) {
	hs := func() []string { return histStrings(calls) }
	before := append([]byte(nil), e.Bytes()...)
	// now and then an earlier listing went to a destination that failed part-way (full disk, closed
	// pipe): listing again to a working destination must be unaffected
	if n := len(calls) + len(before); n%3 == 0 {
		_ = e.WriteTextTo(&failWriter{after: n % 7})
		_ = e.WriteHexTo(&failWriter{after: (n / 7) % 5})
		r.Cell("listing-after-failed-destination")
	}
	txt, err, pan := listText(e)
	if pan != nil || err != nil {
		r.Fail("text-listing-fails", fmt.Sprintf("WriteTextTo %s: err=%v panic=%v", when, err, pan), hs())
		return false
	}
	hx, err, pan := listHex(e)
	if pan != nil || err != nil {
		key := "hex-listing-fails"
		if hasLongData(calls) {
			key = "hex-listing-fails-data-over-16"
		}
		r.Fail(key, fmt.Sprintf("WriteHexTo %s: err=%v panic=%v", when, err, pan), hs())
		return false
	}
	if string(e.Bytes()) != string(before) {
		r.Fail("listing-alters-program", "producing a listing changed Bytes() "+when, hs())
		return false
	}
	code := e.Bytes()
	// hex listing = Bytes()
	hb, perr := parseHexListing(hx)
	if perr != nil {
		r.Fail("hex-listing-syntax", fmt.Sprintf("hex listing %s: %v", when, perr), hs())
		return false
	}
	if string(hb) != string(code) {
		key := "hex-listing-bytes"
		if hasLongData(calls) {
			key = "hex-listing-bytes-data-over-16"
		}
		r.Fail(key, fmt.Sprintf("hex listing %s has %d byte tokens, Bytes() has %d; first difference at %d", when, len(hb), len(code), firstDiff(hb, code)), hs())
		return false
	}
	// text listing
	tl, perr := parseTextListing(txt)
	if perr != nil {
		r.Fail("text-listing-syntax", fmt.Sprintf("text listing %s: %v", when, perr), hs())
		return false
	}
	if len(tl) != len(sh.lines) {
		r.Fail("text-listing-line-count", fmt.Sprintf("text listing %s has %d entries, %d were issued", when, len(tl), len(sh.lines)), hs())
		return false
	}
	base := e.GetBase()
	for i, got := range tl {
		want := sh.lines[i]
		if got.kind != want.kind {
			r.Fail("text-listing-order", fmt.Sprintf("text listing %s entry %d is a %s line, the call issued there was %s", when, i, got.kind, want.kind), hs())
			return false
		}
		switch got.kind {
		case "base":
			if got.addr != want.addr {
				r.Fail("text-listing-base", fmt.Sprintf("base line shows $%06x, SetBase was $%06x", got.addr, want.addr), hs())
				return false
			}
		case "comment", "label":
			if got.text != want.text {
				r.Fail("text-listing-"+got.kind, fmt.Sprintf("%s line %d shows %q, issued %q", got.kind, i, got.text, want.text), hs())
				return false
			}
		case "db", "ins":
			if got.addr != want.addr {
				r.Fail("text-listing-address-"+got.kind, fmt.Sprintf("%s line %d shows address $%06x, bytes sit at $%06x", got.kind, i, got.addr, want.addr), hs())
				return false
			}
			o := int(got.addr - base)
			if o < 0 || o+len(got.bytes) > len(code) || string(code[o:o+len(got.bytes)]) != string(got.bytes) || len(got.bytes) != len(want.bytes) {
				r.Fail("text-listing-bytes-"+got.kind, fmt.Sprintf("%s line %d at $%06x shows bytes %x, code there is %x (%d expected)", got.kind, i, got.addr, got.bytes, code[max(o, 0):min(max(o, 0)+len(want.bytes), len(code))], len(want.bytes)), hs())
				return false
			}
			if got.kind == "ins" && got.text != want.text && !strings.HasPrefix(got.text, want.text) {
				r.Fail("text-listing-mnemonic", fmt.Sprintf("instruction line %d shows %q for %s", i, got.text, want.text), hs())
				return false
			}
		}
	}
	return true
}

func hasLongData(calls []hcall) bool {
	for _, c := range calls {
		if c.Op == "data" && len(c.Data) > 16 {
			return true
		}
	}
	return false
}

func C15(r *vf.Run) {
	r.Rule = "generated histories with listing generation on: data blocks of length {0,1,15,16,17,31,32,33,48,255,256,1000}, comments/labels up to 500 chars, base set/unset, buffers exactly full and roomy, listings taken before and after Finalize (successful and failed); both listings are parsed and compared with Bytes() and the shadow model; a cell is (longest data-block class, buffer slack, before/after Finalize outcome, base class)"
	r.Assume = []string{"comments and labels are drawn from an alphabet without newline, ';', '$' and '0x' so the listing parser is unambiguous", "histories with a call refused for capacity are not listed (the program did not fit)"}
	if !r.Phase("histories") {
		return
	}
	chunks := r.N(64, 6000)
	r.Parallel(runtime.NumCPU(), chunks, func(w, ci int) {
		g := r.Rand("hist").Fork(uint64(ci))
		cells := map[string]int64{}
		for k := 0; k < 160 && !r.TooMany(); k++ {
			calls, base, _ := genHistory(g, histOpts{maxCalls: 120, listing: true, dataBlocks: true, withRefs: g.Intn(2) == 0, withDup: false})
			if k%10 == 3 {
				if fl := flushToBankEnd(g, calls, true); fl != nil {
					calls, base = fl, "ends-at-bank-end"
				}
			}
			if k%40 == 7 {
				// a program longer than 65,535 bytes: one big table early on, code and data after it
				calls, base, _ = genHistory(g, histOpts{maxCalls: 40, listing: true, dataBlocks: true})
				at := 0
				for at < len(calls) && (calls[at].Op == "setbase" || calls[at].Op == "assumesep" || calls[at].Op == "comment" || (calls[at].Op == "label" && at < 3)) {
					at++
				}
				for i := range calls {
					if calls[i].Op == "setbase" {
						calls[i].Arg &= 0x7FFFFF // keep the whole program below the top of the address space
					}
				}
				big := hcall{Op: "data", Data: g.Bytes([]int{65519, 65520, 65535, 65536, 65537, 70000}[g.Intn(6)] + g.Intn(3))}
				calls = append(calls[:at:at], append([]hcall{big}, calls[at:]...)...)
				cells["program-longer-than-64k"]++
			}
			// size it with the shadow first
			sz := newShadow(true)
			for _, c := range calls {
				if sz.legal(c) {
					sz.apply(c)
				}
			}
			slack := []int{0, 0, 1, 17, 4096}[g.Intn(5)]
			e, sh, _, ok := runHistory(r, calls, true, len(sz.code)+slack, "c15")
			r.Eval(1)
			if !ok {
				continue
			}
			maxData := 0
			for _, c := range calls {
				if c.Op == "data" && len(c.Data) > maxData {
					maxData = len(c.Data)
				}
			}
			dc := "none"
			switch {
			case maxData > 256:
				dc = ">256"
			case maxData > 33:
				dc = "34-256"
			case maxData > 16:
				dc = "17-33"
			case maxData == 16:
				dc = "16"
			case maxData > 0:
				dc = "1-15"
			}
			sl := "roomy"
			if slack == 0 {
				sl = "exactly-full"
			} else if slack == 1 {
				sl = "one-spare"
			}
			if !checkListings(r, e, sh, "before Finalize", calls) {
				continue
			}
			cells[fmt.Sprintf("data%s:%s:before:%s", dc, sl, base)]++
			err := e.Finalize()
			oc := "after-ok"
			if err != nil {
				oc = "after-failed"
			}
			// after Finalize the shadow's expected instruction bytes are whatever Bytes() now holds:
			// the listing must show the bytes that really sit there.
			if !checkListings(r, e, sh, "after Finalize ("+oc+")", calls) {
				continue
			}
			cells[fmt.Sprintf("data%s:%s:%s:%s", dc, sl, oc, base)]++
			if ci == 0 && k < 2 {
				txt, _, _ := listText(e)
				r.Sample(map[string]interface{}{"calls": histStrings(calls)[:min(10, len(calls))], "text_listing_head": strings.Split(txt, "\n")[:min(8, strings.Count(txt, "\n"))]})
			}
		}
		r.MergeCells(cells)
	})
	for _, s := range []string{"data17-33:exactly-full", "data>256:", "data16:", ":after-failed:", ":after-ok:", "exactly-full:before:unset"} {
		r.RequireSub(s)
	}
}
