package props

import (
	"bytes"
	"fmt"
	"reflect"
	"runtime"
	"sort"
	"strings"

	snes "github.com/alttpo/snes"

	"verif/internal/vf"
)

func init() { reg("C09", C09) }

type hdrField struct {
	name string
	off  int // from $FFB0
	size int
}

// Independent offset table for $FFB0-$FFFF, written from the SNES header layout.
var hdrTable = []hdrField{
	{"MakerCode", 0x00, 2}, {"GameCode", 0x02, 4}, {"Fixed1", 0x06, 6}, {"FlashSize", 0x0C, 1},
	{"ExpansionRAMSize", 0x0D, 1}, {"SpecialVersion", 0x0E, 1}, {"CoCPUType", 0x0F, 1},
	{"Title", 0x10, 21}, {"MapMode", 0x25, 1}, {"CartridgeType", 0x26, 1}, {"ROMSize", 0x27, 1},
	{"RAMSize", 0x28, 1}, {"DestinationCode", 0x29, 1}, {"OldMakerCode", 0x2A, 1}, {"MaskROMVersion", 0x2B, 1},
	{"ComplementCheckSum", 0x2C, 2}, {"CheckSum", 0x2E, 2},
	{"NativeVectors.Unused1", 0x30, 4}, {"NativeVectors.COP", 0x34, 2}, {"NativeVectors.BRK", 0x36, 2},
	{"NativeVectors.ABORT", 0x38, 2}, {"NativeVectors.NMI", 0x3A, 2}, {"NativeVectors.Unused2", 0x3C, 2},
	{"NativeVectors.IRQ", 0x3E, 2},
	{"EmulatedVectors.Unused1", 0x40, 4}, {"EmulatedVectors.COP", 0x44, 2}, {"EmulatedVectors.Unused2", 0x46, 2},
	{"EmulatedVectors.ABORT", 0x48, 2}, {"EmulatedVectors.NMI", 0x4A, 2}, {"EmulatedVectors.RESET", 0x4C, 2},
	{"EmulatedVectors.IRQBRK", 0x4E, 2},
}

// flatten returns name -> little-endian-independent canonical rendering of every exported leaf field.
func flattenHeader(h *snes.Header) map[string]string {
	out := map[string]string{}
	var walk func(prefix string, v reflect.Value)
	walk = func(prefix string, v reflect.Value) {
		t := v.Type()
		for i := 0; i < v.NumField(); i++ {
			f := t.Field(i)
			if f.PkgPath != "" { // unexported
				continue
			}
			fv := v.Field(i)
			if fv.Kind() == reflect.Struct {
				walk(prefix+f.Name+".", fv)
				continue
			}
			switch fv.Kind() {
			case reflect.Array:
				b := make([]byte, fv.Len())
				for k := range b {
					b[k] = byte(fv.Index(k).Uint())
				}
				out[prefix+f.Name] = "bytes:" + vf.Hex(b)
			default:
				out[prefix+f.Name] = fmt.Sprintf("uint:%d", fv.Uint())
			}
		}
	}
	walk("", reflect.ValueOf(h).Elem())
	return out
}

func expectHeader(raw []byte) (ver int, fields map[string]string) {
	switch {
	case raw[0x2A] == 0x33:
		ver = 3
	case raw[0x10+20] == 0:
		ver = 2
	default:
		ver = 1
	}
	fields = map[string]string{}
	for _, f := range hdrTable {
		b := raw[f.off : f.off+f.size]
		if ver == 1 && f.off < 0x10 {
			b = make([]byte, f.size)
		}
		switch {
		case f.size > 4 || strings.HasSuffix(f.name, "Unused1"):
			fields[f.name] = "bytes:" + vf.Hex(b)
		default:
			v := uint64(0)
			for i := f.size - 1; i >= 0; i-- {
				v = v<<8 | uint64(b[i])
			}
			fields[f.name] = fmt.Sprintf("uint:%d", v)
		}
	}
	return
}

func diffFields(a, b map[string]string) []string {
	var d []string
	for k, v := range a {
		if w, ok := b[k]; !ok || w != v {
			d = append(d, k)
		}
	}
	for k := range b {
		if _, ok := a[k]; !ok {
			d = append(d, k)
		}
	}
	sort.Strings(d)
	return d
}

func C09(r *vf.Run) {
	r.Rule = "random 80-byte header contents with the two discriminating bytes forced so versions 1/2/3 are equally covered, inside images of several sizes, parsed by fresh ROM/Header objects and by objects that parsed a different header (of another version) just before; every field compared by name against an independent offset table; all 80x255 single-byte perturbations of base headers; a cell is (version, image-size class) or (version, perturbed offset)"
	r.Assume = []string{"header lives at file offset $7FB0 (NewROM's HeaderOffset)"}
	sizes := []int{0x8000, 0x8000 + 1, 0x8000 + 0x123, 0x10000, 0x100000, 0x8000 + 0x200, 0x10000 + 0x200, 0x8000 + 0x1FF}

	mkHeader := func(g *vf.Rng, ver int) []byte {
		raw := g.Bytes(80)
		switch ver {
		case 3:
			raw[0x2A] = 0x33
			if g.Intn(2) == 0 {
				raw[0x24] = 0
			}
		case 2:
			raw[0x24] = 0
			if raw[0x2A] == 0x33 {
				raw[0x2A] = 0x32
			}
		case 1:
			if raw[0x24] == 0 {
				raw[0x24] = 0x20
			}
			if raw[0x2A] == 0x33 {
				raw[0x2A] = 0x01
			}
		}
		if ss := srcStrings(); len(ss) > 0 && g.Intn(6) == 0 {
			// text fields that say something: the strings the library's own source contains (names it may
			// know, keywords it may look for), padded the way cartridges pad titles
			t := ss[g.Intn(len(ss))]
			pad := []byte{' ', 0, ' ', 0xFF}[g.Intn(4)]
			for i := 0; i < 21; i++ {
				c := pad
				if i < len(t) {
					c = t[i]
				}
				if ver == 2 && i == 20 {
					c = 0
				}
				if ver == 1 && i == 20 && c == 0 {
					c = ' '
				}
				raw[0x10+i] = c
			}
			if g.Intn(3) == 0 { // ... or in the maker / game code of the extended header
				t2 := ss[g.Intn(len(ss))]
				copy(raw[0x00:0x06], t2)
			}
		}
		if g.Intn(8) == 0 { // sparse headers: mostly zero / mostly FF
			fill := byte(0)
			if g.Bool() {
				fill = 0xFF
			}
			for i := range raw {
				if i != 0x24 && i != 0x2A && g.Intn(4) != 0 {
					raw[i] = fill
				}
			}
		}
		return raw
	}

	type bufs struct {
		img, orig map[int][]byte
		rom       map[int]*snes.ROM // a ROM object kept alive and re-parsed with different contents
		prevVer   map[int]int
		scratch   *snes.Header
		fixSum    int
		second    bool // the larger images carry a second, well-formed header at $FFB0
	}
	newBufs := func(g *vf.Rng) *bufs {
		b := &bufs{map[int][]byte{}, map[int][]byte{}, map[int]*snes.ROM{}, map[int]int{}, new(snes.Header), 0, false}
		for _, n := range sizes {
			b.orig[n] = g.Bytes(n)
			if n >= 0x10000 && g.Intn(3) != 0 {
				// the rest of the image is not noise either: a real HiROM dump carries a well-formed header
				// at file offset $FFB0 (title, map mode, sizes, complementary checksum pair, vectors)
				h := b.orig[n][0xFFB0:0x10000]
				copy(h[0x10:], []byte("SECOND HEADER IN BODY"))
				h[0x25] = []byte{0x21, 0x31, 0x25, 0x35}[g.Intn(4)]
				h[0x26], h[0x27], h[0x28], h[0x29], h[0x2A], h[0x2B] = 0x02, byte(8+g.Intn(5)), byte(g.Intn(8)), 0x01, 0x33, 0
				sum := g.U16() | 1
				h[0x2E], h[0x2F], h[0x2C], h[0x2D] = byte(sum), byte(sum>>8), byte(^sum), byte(^sum>>8)
				for i := 0x30; i < 0x50; i += 2 {
					h[i], h[i+1] = byte(g.Intn(256)), byte(0x80+g.Intn(0x80)) // vectors into the ROM half
				}
				b.second = true
			}
			b.img[n] = append([]byte(nil), b.orig[n]...)
		}
		return b
	}
	checkOne := func(raw []byte, size int, bf *bufs, tag string) {
		img, orig := bf.img[size], bf.orig[size]
		copy(img[0x7FB0:], raw)
		sfx := ""
		if bf.fixSum != 0 {
			// a well-formed cartridge: complementary checksum pair (1), which is also the image's byte sum (2)
			sum := uint16(raw[0x2E]) | uint16(raw[0x2F])<<8
			if bf.fixSum == 2 {
				img[0x7FDC], img[0x7FDD], img[0x7FDE], img[0x7FDF] = 0xFF, 0xFF, 0, 0
				sum = 0
				for _, x := range img {
					sum += uint16(x)
				}
			}
			raw[0x2E], raw[0x2F], raw[0x2C], raw[0x2D] = byte(sum), byte(sum>>8), byte(^sum), byte(^sum>>8)
			copy(img[0x7FB0:], raw)
			sfx = fmt.Sprintf("+sum%d", bf.fixSum)
			bf.fixSum = 0
		}
		copy(orig[0x7FB0:], raw)
		ver, want := expectHeader(raw)
		var rom *snes.ROM
		if old := bf.rom[size]; old != nil && tag == "reuse" {
			// the same ROM (and its embedded Header) parses a second, different header
			rom = old
			if err := rom.ReadHeader(); err != nil {
				r.Fail("readheader-error", fmt.Sprintf("ROM.ReadHeader on a reused ROM: %v", err), vf.Hex(raw))
				return
			}
			tag = fmt.Sprintf("reuse-v%d-after", bf.prevVer[size])
		} else {
			var err error
			rom, err = newROMAnyWay(int(raw[3])>>2, "t", img)
			if err != nil {
				r.Fail("newrom-error", fmt.Sprintf("NewROM failed on %d-byte image: %v", size, err), nil)
				return
			}
			bf.rom[size] = rom
		}
		bf.prevVer[size] = ver
		if got := rom.Header.HeaderVersion(); got != ver {
			r.Fail("version-rule", fmt.Sprintf("HeaderVersion()=%d want %d (oldmaker=%02x title[20]=%02x)", got, ver, raw[0x2A], raw[0x24]), vf.Hex(raw))
		}
		got := flattenHeader(&rom.Header)
		if d := diffFields(want, got); len(d) > 0 {
			r.Fail("field-offset:"+d[0], fmt.Sprintf("v%d header: fields %v differ from the offset table: e.g. %s got %q want %q", ver, d, d[0], got[d[0]], want[d[0]]), vf.Hex(raw))
		}
		if !bytes.Equal(img, orig) {
			r.Fail("read-modifies-image", "ReadHeader changed the image", vf.Hex(raw))
		}
		// the same header parsed from one reader over the whole image, positioned at the header
		{
			rd := bytes.NewReader(img)
			_, _ = rd.Seek(0x7FB0, 0)
			var h3 snes.Header
			if err := h3.ReadHeader(rd); err != nil {
				r.Fail("seeked-reader-error", fmt.Sprintf("Header.ReadHeader on a reader positioned at $7FB0: %v", err), vf.Hex(raw))
			} else if d := diffFields(want, flattenHeader(&h3)); len(d) > 0 || h3.HeaderVersion() != ver {
				r.Fail("seeked-reader-differs", fmt.Sprintf("v%d header parsed from a reader over the whole image positioned at $7FB0: version %d, fields %v differ from the offset table", ver, h3.HeaderVersion(), d), vf.Hex(raw))
			}
			if pos, _ := rd.Seek(0, 1); pos != 0x8000 {
				r.Fail("seeked-reader-consumes", fmt.Sprintf("ReadHeader consumed %d bytes, the header is 80 bytes long", pos-0x7FB0), vf.Hex(raw))
			}
		}
		// so is HeaderOffset: a caller working on a HiROM image points it at $FFB0 (NewROM only knows the
		// LoROM location); read-then-write at that offset must leave the image alone too
		if size >= 0x10000 && (raw[5]&3) == 1 {
			save := rom.HeaderOffset
			rom.HeaderOffset = 0xFFB0
			img2 := append([]byte(nil), img...)
			if err := rom.ReadHeader(); err == nil {
				want2 := img[0xFFB0:0x10000]
				_, wf := expectHeader(want2)
				if d := diffFields(wf, flattenHeader(&rom.Header)); len(d) > 0 {
					r.Fail("header-offset-ignored-on-read", fmt.Sprintf("HeaderOffset=$FFB0: ReadHeader reports fields %v that are not those at $FFB0", d), vf.Hex(want2))
				}
				if err := rom.WriteHeader(); err != nil {
					r.Fail("writeheader-error", fmt.Sprintf("HeaderOffset=$FFB0: WriteHeader: %v", err), nil)
				}
				if !bytes.Equal(img, img2) {
					r.Fail("roundtrip-image-other-offset", fmt.Sprintf("HeaderOffset=$FFB0: ReadHeader+WriteHeader changed image byte at file offset $%06x", firstDiff(img, img2)), nil)
					copy(img, img2)
				}
				r.Cell("header-at-ffb0-roundtrip")
			}
			rom.HeaderOffset = save
			_ = rom.ReadHeader()
		}
		// the Header is a public field: a caller may have edited it (or parsed something else into it)
		// without touching the image; reading the header again must bring back what the image holds
		if len(raw)%2 == 0 && (raw[3]&3) == 0 {
			other := append([]byte(nil), raw...)
			for i := range other {
				other[i] ^= byte(0x5A + i)
			}
			_ = rom.Header.ReadHeader(bytes.NewReader(other))
			rom.Header.ROMSize ^= 0xFF
			if err := rom.ReadHeader(); err != nil {
				r.Fail("readheader-error", fmt.Sprintf("ROM.ReadHeader after the Header field was edited in memory: %v", err), vf.Hex(raw))
			} else if d := diffFields(want, flattenHeader(&rom.Header)); len(d) > 0 || rom.Header.HeaderVersion() != ver {
				r.Fail("reread-after-field-edit", fmt.Sprintf("v%d: after the Header field was edited in memory (image untouched) ReadHeader reports fields %v (version %d) that are not those of the image", ver, d, rom.Header.HeaderVersion()), vf.Hex(raw))
			}
			r.Cell("reread-after-field-edit")
		}
		// ReadHeader; WriteHeader leaves the image unchanged
		if err := rom.WriteHeader(); err != nil {
			r.Fail("writeheader-error", fmt.Sprintf("WriteHeader: %v", err), vf.Hex(raw))
		}
		if !bytes.Equal(img, orig) {
			k := 0
			for k < len(img) && img[k] == orig[k] {
				k++
			}
			r.Fail(fmt.Sprintf("roundtrip-image-v%d", ver), fmt.Sprintf("v%d: ReadHeader+WriteHeader changed image byte at file offset $%06x (header offset $%02x): %02x -> %02x", ver, k, k-0x7FB0, orig[k], img[k]), vf.Hex(raw))
			copy(img, orig)
		}
		// serialise -> 80 bytes -> parse back -> identical header
		var buf bytes.Buffer
		if err := rom.Header.WriteHeader(&buf); err != nil {
			r.Fail("serialise-error", fmt.Sprintf("Header.WriteHeader: %v", err), vf.Hex(raw))
		}
		if buf.Len() != 80 {
			r.Fail("serialise-length", fmt.Sprintf("Header.WriteHeader produced %d bytes, want 80", buf.Len()), vf.Hex(raw))
		} else {
			h2 := bf.scratch // a Header value that has parsed other headers before
			if err := h2.ReadHeader(bytes.NewReader(buf.Bytes())); err != nil {
				r.Fail("reparse-error", fmt.Sprintf("re-parse: %v", err), vf.Hex(raw))
			} else if !reflect.DeepEqual(*h2, rom.Header) {
				r.Fail("reparse-differs", fmt.Sprintf("v%d: serialised header parses back to a different header: %v", ver, diffFields(flattenHeader(h2), got)), vf.Hex(raw))
			}
			// the serialised bytes are the raw ones (v1: extended area zero)
			exp := append([]byte(nil), raw...)
			if ver == 1 {
				for i := 0; i < 0x10; i++ {
					exp[i] = 0
				}
			}
			if !bytes.Equal(buf.Bytes(), exp) {
				k := 0
				for buf.Bytes()[k] == exp[k] {
					k++
				}
				r.Fail("serialise-bytes", fmt.Sprintf("v%d: serialised byte $%02x = %02x want %02x", ver, k, buf.Bytes()[k], exp[k]), vf.Hex(raw))
			}
		}
		r.Eval(1)
		r.Cell(fmt.Sprintf("%s%s:v%d:size%x", tag, sfx, ver, size))
		if bf.second && size >= 0x10000 {
			r.Cell("image-with-second-header-at-ffb0")
		}
	}

	if r.Phase("random-headers") {
		chunks := r.N(60, 3000)
		r.Parallel(runtime.NumCPU(), chunks, func(w, ci int) {
			g := r.Rand("random").Fork(uint64(ci))
			bf := newBufs(g)
			for k := 0; k < 1000 && !r.TooMany(); k++ {
				i := ci*1000 + k
				ver := 1 + i%3
				size := sizes[(i/3)%len(sizes)]
				if size > 0x10000 && i%50 != 0 {
					size = 0x8000
				}
				raw := mkHeader(g, ver)
				tag := "rt"
				if k%2 == 1 {
					tag = "reuse"
				}
				if k%5 == 3 {
					bf.fixSum = 1 + (k/5)%2
				}
				checkOne(raw, size, bf, tag)
				if i < 3 {
					r.Sample(map[string]interface{}{"version": ver, "image_size": size, "header": vf.Hex(raw)})
				}
			}
		})
	}
	c09HugeImages(r)
	if r.Phase("too-small") {
		// images below 32 KiB are rejected, not parsed
		for _, n := range []int{0, 1, 0x7FB0, 0x7FFF} {
			if _, err := snes.NewROM("s", make([]byte, n)); err == nil {
				r.Fail("small-image-accepted", fmt.Sprintf("NewROM accepted a %d-byte image", n), nil)
			}
			r.Eval(1)
		}
		r.Cell("small-images-rejected")
	}
	if r.Phase("perturbation") {
		g := r.Rand("perturb")
		bases := r.N(3, 60)
		for bi := 0; bi < bases; bi++ {
			ver := 1 + bi%3
			raw := mkHeader(g, ver)
			var h0 snes.Header
			if err := h0.ReadHeader(bytes.NewReader(raw)); err != nil {
				r.Fail("parse-error", err.Error(), nil)
				continue
			}
			f0 := flattenHeader(&h0)
			for off := 0; off < 80; off++ {
				var owner string
				for _, f := range hdrTable {
					if off >= f.off && off < f.off+f.size {
						owner = f.name
					}
				}
				for delta := 1; delta < 256; delta++ {
					mut := append([]byte(nil), raw...)
					mut[off] ^= byte(delta)
					if v, _ := expectHeader(mut); v != ver {
						continue // not version-preserving
					}
					var h1 snes.Header
					if err := h1.ReadHeader(bytes.NewReader(mut)); err != nil {
						r.Fail("parse-error", err.Error(), nil)
						continue
					}
					d := diffFields(f0, flattenHeader(&h1))
					r.Eval(1)
					if ver == 1 && off < 0x10 {
						if len(d) != 0 {
							r.Fail("v1-extended-not-zero", fmt.Sprintf("v1: changing byte $%02x changed %v", off, d), vf.Hex(mut))
						}
						continue
					}
					if len(d) != 1 || d[0] != owner {
						r.Fail("perturb:"+owner, fmt.Sprintf("v%d: changing header byte $%02x (field %s) changed fields %v", ver, off, owner, d), vf.Hex(mut))
					}
				}
				r.Cell(fmt.Sprintf("perturb:v%d:off%02x", ver, off))
			}
		}
	}
	// the field set seen by reflection must be the documented one
	if r.Phase("field-set") {
		var h snes.Header
		got := flattenHeader(&h)
		want := map[string]string{}
		for _, f := range hdrTable {
			want[f.name] = ""
		}
		for k := range got {
			if _, ok := want[k]; !ok {
				r.Fail("field-set", "Header has undocumented exported field "+k, nil)
			}
		}
		for k := range want {
			if _, ok := got[k]; !ok {
				r.Fail("field-set", "Header lacks documented field "+k, nil)
			}
		}
		r.Eval(1)
		r.Cell("field-set")
	}
}
