package props

import (
	"fmt"
	"io"
	"sort"
	"strings"

	"github.com/alttpo/snes/emulator/bus"
	"github.com/alttpo/snes/emulator/cpu65c816"
	"github.com/alttpo/snes/emulator/cpualt"

	"verif/internal/mem"
	"verif/internal/ref"
	"verif/internal/vf"
)

// cpuRig holds one instance of each interpreter with the whole 16 MiB mapped
// onto a switchable instrumented image. One rig per worker goroutine.
type cpuRig struct {
	bus *bus.Bus
	// buses: two buses forked (copied by value) from one half-built template and completed separately;
	// the CPU is wired to buses[cur] and re-wired to the other now and then (InitFrom / the Bus field)
	buses [2]*bus.Bus
	cur   int
	bm    *mem.BusMem
	prim  cpu65c816.CPU
	alt   *cpualt.CPU
	am    *mem.Image // image behind the alternative CPU
}

// Where an interpreter object sits in host memory is the caller's choice: CPUs are plain structs that
// callers embed by value. In the rig the primary CPU follows five 32-bit words, and the alternative one
// lives in a struct behind a single 32-bit field: on targets with 4-byte struct alignment (386) both are at
// addresses that are 4 modulo 8, on 64-bit targets they are 8-aligned.
type altHolder struct {
	frame uint32
	c     cpualt.CPU
}

func newAltCPU() *cpualt.CPU { return &new(altHolder).c }

// segDev is one of the 2^20 devices that together map the whole 16 MiB: like a memory.RAM sized to
// its own range it serves only the 16 bytes of its segment, and fails when handed another address.
type segDev struct {
	seg uint32
	g   *cpuRig
	bus int8 // which of the rig's buses it was attached to (-1: attached to the template both were copied from)
}

func (d *segDev) check(a uint32) {
	if a>>4 != d.seg {
		panic(fmt.Errorf("device of segment $%05x was handed address $%06x (index out of its range)", d.seg, a))
	}
	if d.bus >= 0 && int(d.bus) != d.g.cur {
		panic(fmt.Errorf("address $%06x was served by a device attached to bus #%d only, but the CPU is wired to bus #%d", a, d.bus, d.g.cur))
	}
}
func (d *segDev) Read(a uint32) byte     { d.check(a); return d.g.bm.M.RdAddr(a) }
func (d *segDev) Write(a uint32, v byte) { d.check(a); d.g.bm.M.WrAddr(a, v) }
func (d *segDev) Shutdown()              {}
func (d *segDev) Size() uint32           { return 16 }
func (d *segDev) Clear()                 {}
func (d *segDev) Dump(uint32) []byte     { return nil }

// rigLight (set by monitors that need many rigs at once and do not judge device routing): one
// device over the whole bus instead of one per segment.
var rigLight = false

func newRig() *cpuRig {
	g := &cpuRig{bm: &mem.BusMem{}}
	if rigLight {
		g.bus, _ = bus.New()
		if err := g.bus.Attach(g.bm, "all", 0, 0xFFFFFF); err != nil {
			panic(err)
		}
		g.alt = newAltCPU()
		g.alt.Init()
		g.alt.Bus.AttachReader(0, 0xFFFFFF, func(a uint32) uint8 { return g.am.RdAddr(a) })
		g.alt.Bus.AttachWriter(0, 0xFFFFFF, func(a uint32, v uint8) { g.am.WrAddr(a, v) })
		return g
	}
	if altFirst {
		g.alt = newAltCPU()
		g.alt.Init()
	}
	// the whole bus is mapped, by one device per 16-byte segment. Banks $00-$7F are attached to a
	// template bus; two buses are then copied from it by value (a Bus is a value type) and each gets its
	// own devices for banks $80-$FF
	tmpl, _ := bus.New()
	devs := make([]segDev, 1<<19)
	for i := range devs {
		devs[i] = segDev{uint32(i), g, -1}
		if err := tmpl.Attach(&devs[i], "seg", uint32(i)<<4, uint32(i)<<4|15); err != nil {
			panic(err)
		}
	}
	var own [2][]segDev
	for bi := 0; bi < 2; bi++ {
		g.buses[bi] = new(bus.Bus)
		*g.buses[bi] = *tmpl
		own[bi] = make([]segDev, 1<<19)
	}
	for i := 0; i < 1<<19; i++ {
		seg := uint32(i) + 1<<19
		for bi := 0; bi < 2; bi++ { // alternately, so that the two forks grow side by side
			own[bi][i] = segDev{seg, g, int8(bi)}
			if err := g.buses[bi].Attach(&own[bi][i], "seg", seg<<4, seg<<4|15); err != nil {
				panic(err)
			}
		}
	}
	g.bus = g.buses[0]
	if !altFirst {
		g.alt = newAltCPU()
		g.alt.Init()
	}
	for i := uint32(0); i < 1<<20; i++ {
		seg := i
		g.alt.Bus.AttachReader(seg<<4, seg<<4|15, func(a uint32) uint8 {
			if a>>4 != seg {
				panic(fmt.Errorf("reader of segment $%05x was handed address $%06x", seg, a))
			}
			return g.am.RdAddr(a)
		})
		g.alt.Bus.AttachWriter(seg<<4, seg<<4|15, func(a uint32, v uint8) {
			if a>>4 != seg {
				panic(fmt.Errorf("writer of segment $%05x was handed address $%06x", seg, a))
			}
			g.am.WrAddr(a, v)
		})
	}
	return g
}

// loadPrim loads an architectural state; stale fills the non-authoritative
// register copies with garbage (states reachable by ordinary programs).
func (g *cpuRig) loadPrim(s ref.State, stale bool, r *vf.Rng) {
	c := &g.prim
	if g.buses[0] != nil && c.Bus == g.bus && r.Intn(6) == 0 {
		// re-wire the CPU to the rig's other bus: through InitFrom, or by assigning the exported field
		g.cur ^= 1
		nb := g.buses[g.cur]
		if r.Bool() {
			tmp := *c
			c.InitFrom(&tmp, nb)
		} else {
			c.Bus = nb
		}
		g.bus = nb
		c.AllCycles, c.Cycles, c.Stopped, c.PRK, c.PPC, c.WDM = 0, 0, false, 0, 0, 0
		c.OnWDM, c.OnPC = nil, nil
		c.B, c.E, c.Interrupt = 0, 0, 0
		c.StepInfo = cpu65c816.StepInfo{}
	} else if c.Bus == g.bus && r.Intn(2) == 0 {
		// reuse the CPU object the way a caller poking registers between runs does
		// (System.SetPC does the same): every exported field is assigned, nothing is re-initialised,
		// so state the interpreter hides outside its registers survives into this case
		c.AllCycles, c.Cycles, c.Stopped, c.PRK, c.PPC, c.WDM = 0, 0, false, 0, 0, 0
		c.OnWDM, c.OnPC = nil, nil
		c.B, c.E, c.Interrupt = 0, 0, 0
		c.StepInfo = cpu65c816.StepInfo{}
	} else if c.Bus == g.bus && r.Intn(3) == 0 {
		// a CPU made with InitFrom from one that has already run other code
		tmp := *c
		c.InitFrom(&tmp, g.bus)
		c.AllCycles, c.Cycles, c.Stopped, c.PRK, c.PPC, c.WDM = 0, 0, false, 0, 0, 0
		c.OnWDM, c.OnPC = nil, nil
		c.B, c.E, c.Interrupt = 0, 0, 0
		c.StepInfo = cpu65c816.StepInfo{}
	} else {
		c.Init(g.bus)
	}
	if !stale && !s.E && r.Intn(3) == 0 {
		// load the status register through the API: 16-bit registers first, then SetFlags narrows them
		c.PC, c.SP, c.RD, c.RDBR, c.RK = s.PC, s.S, s.D, s.DBR, s.K
		c.M, c.X = 0, 0
		c.RA, c.RX, c.RY = s.A, s.X, s.Y
		c.SetFlags(s.P)
		return
	}
	g.assignPrim(s, stale, r)
}

// assignPrim sets the architectural registers field by field.
func (g *cpuRig) assignPrim(s ref.State, stale bool, r *vf.Rng) {
	c := &g.prim
	c.PC, c.SP, c.RD, c.RDBR, c.RK = s.PC, s.S, s.D, s.DBR, s.K
	c.N = s.P >> 7 & 1
	c.V = s.P >> 6 & 1
	c.M = s.P >> 5 & 1
	c.X = s.P >> 4 & 1
	c.D = s.P >> 3 & 1
	c.I = s.P >> 2 & 1
	c.Z = s.P >> 1 & 1
	c.C = s.P & 1
	if s.E {
		c.E = 1
	}
	c.RA, c.RAl, c.RAh = s.A, byte(s.A), byte(s.A>>8)
	c.RX, c.RXl = s.X, byte(s.X)
	c.RY, c.RYl = s.Y, byte(s.Y)
	if stale {
		if c.M == 1 {
			c.RA = r.U16()
		} else {
			c.RAl, c.RAh = r.U8(), r.U8()
		}
		if c.X == 1 {
			c.RX = r.U16()&0xFF00 | uint16(c.RXl)
			c.RY = r.U16()&0xFF00 | uint16(c.RYl)
		} else {
			c.RXl, c.RYl = r.U8(), r.U8()
		}
	}
}

// excursion: before a judged native-mode run, the same two CPU objects execute (unjudged) a short
// program that enters emulation mode, moves values into the direct-page, stack and index registers
// there, and returns to native mode; the judged run then starts from registers assigned field by field,
// with nothing re-initialised. Whatever the interpreters keep beside their registers and set while E=1
// is still in place.
func (g *cpuRig) excursion(r *vf.Rng, s0 ref.State, stale bool) {
	img := mem.New(r.U64())
	st := s0
	st.E = false
	st.K = byte(0x10 + r.Intn(0x60))
	st.PC = uint16(0x2000 + r.Intn(0x8000))
	st.S = 0x01F0
	prog := []byte{0x38, 0xFB} // SEC ; XCE
	idioms := [][]byte{
		{0xA9, 0x00, 0xEB, 0xA9, 0x00, 0x5B},              // LDA #0 ; XBA ; LDA #0 ; TCD   (D = $0000)
		{0xA9, byte(r.Intn(256)), 0xEB, 0xA9, 0x00, 0x5B}, // D = $xx00
		{0xA9, byte(r.Intn(256)), 0x5B},                   // TCD with whatever B holds
		{0xF4, 0x00, 0x00, 0x2B},                          // PEA $0000 ; PLD
		{0xF4, 0x00, byte(r.Intn(256)), 0x2B},             // PEA $xx00 ; PLD
		{0xA2, byte(r.Intn(256)), 0x9A},                   // LDX # ; TXS
		{0xA9, byte(r.Intn(256)), 0x1B},                   // TCS
		{0xA0, byte(r.Intn(256)), 0xBB},                   // LDY # ; TYX
		{0xC2, 0x30}, {0xE2, 0x30}, {0x08, 0x28}, {0x48, 0xAB}, {0x4B, 0xAB}, {0xEB}, {0x7B}, {0x3B}, {0xEA},
	}
	for n := 1 + r.Intn(5); n > 0; n-- {
		prog = append(prog, idioms[r.Intn(len(idioms))]...)
	}
	hend := uint16(0)
	if r.Intn(3) == 0 {
		// the way back to native mode leads through a software interrupt taken while E=1 whose handler
		// does not return with RTI: BRK, vector $00:FFFE, handler CLC ; XCE
		h := uint16(0x0400 + r.Intn(0x1000))
		prog = append(prog, 0x00, byte(r.Intn(256)), 0xEA, 0xEA)
		img.Ov[0xFFFE], img.Ov[0xFFFF] = byte(h), byte(h>>8)
		for i, b := range []byte{0x18, 0xFB, 0xEA, 0xEA} {
			img.Ov[uint32(h)+uint32(i)] = b
		}
		hend = h + 2
	} else {
		prog = append(prog, 0x18, 0xFB, 0xEA, 0xEA) // CLC ; XCE
	}
	for i, b := range prog {
		img.Ov[uint32(st.K)<<16|uint32(st.PC+uint16(i))] = b
	}
	g.loadPrim(st, false, r)
	g.loadAltFromPrim()
	mp, ma := img.Clone(), img.Clone()
	end := st.PC + uint16(len(prog)) - 2
	for i := 0; i < len(prog)+4 && g.prim.PC != end && !(hend != 0 && g.prim.RK == 0 && g.prim.PC == hend); i++ {
		if res := g.stepPrim(mp); res.pan != nil {
			break
		}
	}
	for i := 0; i < len(prog)+4 && g.alt.PC != end && !(hend != 0 && g.alt.RK == 0 && g.alt.PC == hend); i++ {
		if res := g.stepAlt(ma); res.pan != nil {
			break
		}
	}
	// back in native mode (if the excursion went as written): assign the judged run's registers
	c := &g.prim
	c.AllCycles, c.Cycles, c.Stopped, c.PRK, c.PPC, c.WDM = 0, 0, false, 0, 0, 0
	c.OnWDM, c.OnPC = nil, nil
	c.E, c.Interrupt = 0, 0 // (B, a public field the interpreters document no meaning for, stays as they left it)
	c.StepInfo = cpu65c816.StepInfo{}
	g.assignPrim(s0, stale, r)
	g.alt.E = 0
	g.loadAltFromPrim()
}

// observeFromHooks registers WDM callbacks that only look: they call the read-only methods of the CPU
// they belong to (disassemble some other address, the current one, read the flags) while its Step is in
// progress, as a debugger's hook does. Call after loadPrim/loadAltFromPrim.
func (g *cpuRig) observeFromHooks() {
	p, a := &g.prim, g.alt
	p.OnWDM = func(b byte) {
		at := uint16(b)*257 + 3
		_ = p.DisassembleTo(at, nil)
		_ = p.Flags()
		if b&1 == 0 {
			_ = p.DisassembleCurrentPC(nil)
		}
	}
	a.OnWDM = func(b byte) {
		at := uint16(b)*257 + 3
		a.DisassembleTo(at, io.Discard)
		_ = a.Flags()
		if b&1 == 0 {
			a.DisassembleCurrentPC(io.Discard)
		}
	}
}

// loadAltFromPrim copies the raw register file so both start identically.
func (g *cpuRig) loadAltFromPrim() {
	c, p := g.alt, &g.prim
	c.PC, c.SP, c.RD, c.RDBR, c.RK = p.PC, p.SP, p.RD, p.RDBR, p.RK
	c.N, c.V, c.M, c.X, c.D, c.I, c.Z, c.C, c.E, c.B = p.N, p.V, p.M, p.X, p.D, p.I, p.Z, p.C, p.E, p.B
	c.RA, c.RAl, c.RAh, c.RX, c.RXl, c.RY, c.RYl = p.RA, p.RAl, p.RAh, p.RX, p.RXl, p.RY, p.RYl
	c.Stopped = false
	c.AllCycles = 0
	c.Cycles = 0
	c.WDM = 0
	c.Interrupt = 0
	c.PPC, c.PRK = 0, 0
	c.OnWDM = nil
	c.StepInfo = cpualt.StepInfo{}
}

func absPrim(c *cpu65c816.CPU) ref.State {
	var s ref.State
	s.PC, s.S, s.D, s.DBR, s.K = c.PC, c.SP, c.RD, c.RDBR, c.RK
	s.P = c.N<<7 | c.V<<6 | c.M<<5 | c.X<<4 | c.D<<3 | c.I<<2 | c.Z<<1 | c.C
	s.E = c.E == 1
	if c.M == 1 {
		s.A = uint16(c.RAh)<<8 | uint16(c.RAl)
	} else {
		s.A = c.RA
	}
	if c.X == 1 {
		s.X, s.Y = uint16(c.RXl), uint16(c.RYl)
	} else {
		s.X, s.Y = c.RX, c.RY
	}
	s.Stopped = c.Stopped
	s.WDM = c.WDM
	return s
}

func absAlt(c *cpualt.CPU) ref.State {
	var s ref.State
	s.PC, s.S, s.D, s.DBR, s.K = c.PC, c.SP, c.RD, c.RDBR, c.RK
	s.P = c.N<<7 | c.V<<6 | c.M<<5 | c.X<<4 | c.D<<3 | c.I<<2 | c.Z<<1 | c.C
	s.E = c.E == 1
	if c.M == 1 {
		s.A = uint16(c.RAh)<<8 | uint16(c.RAl)
	} else {
		s.A = c.RA
	}
	if c.X == 1 {
		s.X, s.Y = uint16(c.RXl), uint16(c.RYl)
	} else {
		s.X, s.Y = c.RX, c.RY
	}
	s.Stopped = c.Stopped
	s.WDM = c.WDM
	return s
}

type stepRes struct {
	cycles  int
	stopped bool
	pan     interface{}
}

func (g *cpuRig) stepPrim(m *mem.Image) (res stepRes) {
	g.bm.M = m
	defer func() {
		if e := recover(); e != nil {
			res.pan = e
		}
	}()
	res.cycles, res.stopped = g.prim.Step()
	return
}

func (g *cpuRig) stepAlt(m *mem.Image) (res stepRes) {
	g.am = m
	defer func() {
		if e := recover(); e != nil {
			res.pan = e
		}
	}()
	res.cycles, res.stopped = g.alt.Step()
	return
}

// ---------------------------------------------------------------- generators

func edge16(r *vf.Rng) uint16 {
	switch r.Intn(8) {
	case 0:
		return 0xFFFF - uint16(r.Intn(4))
	case 1:
		return uint16(r.Intn(4))
	case 2:
		return 0x00FF + uint16(r.Intn(3)) - 1
	case 3:
		return uint16(r.Intn(256)) << 8
	case 4:
		return 0x7FFF + uint16(r.Intn(3)) - 1
	}
	return r.U16()
}

func edge8(r *vf.Rng) byte {
	switch r.Intn(6) {
	case 0:
		return 0xFF
	case 1:
		return 0
	case 2:
		return 0x7E + byte(r.Intn(3))
	}
	return r.U8()
}

// genState draws a native-mode architectural state biased toward boundaries.
func genState(r *vf.Rng) ref.State {
	var s ref.State
	s.A, s.X, s.Y, s.S, s.D, s.PC = edge16(r), edge16(r), edge16(r), edge16(r), edge16(r), edge16(r)
	if r.Intn(3) == 0 {
		s.D &= 0xFF00
	}
	s.DBR, s.K = edge8(r), edge8(r)
	s.P = r.U8()
	if s.P&0x10 != 0 {
		s.X &= 0xFF
		s.Y &= 0xFF
	}
	return s
}

// genEmuState: a valid emulation-mode state (M=X=1, S=$01xx, XH=YH=0).
func genEmuState(r *vf.Rng) ref.State {
	s := genState(r)
	s.E = true
	s.P |= 0x30
	s.X &= 0xFF
	s.Y &= 0xFF
	s.S = 0x0100 | s.S&0xFF
	return s
}

func diffState(a, b ref.State) []string {
	var d []string
	if a.A != b.A {
		d = append(d, "A")
	}
	if a.X != b.X {
		d = append(d, "X")
	}
	if a.Y != b.Y {
		d = append(d, "Y")
	}
	if a.S != b.S {
		d = append(d, "S")
	}
	if a.D != b.D {
		d = append(d, "D")
	}
	if a.PC != b.PC {
		d = append(d, "PC")
	}
	if a.DBR != b.DBR {
		d = append(d, "DBR")
	}
	if a.K != b.K {
		d = append(d, "K")
	}
	if a.P != b.P {
		d = append(d, fmt.Sprintf("P^%02x", a.P^b.P))
	}
	if a.E != b.E {
		d = append(d, "E")
	}
	if a.Stopped != b.Stopped {
		d = append(d, "stp")
	}
	return d
}

func fmtWrites(a map[uint32]byte) string {
	ks := make([]int, 0, len(a))
	for k := range a {
		ks = append(ks, int(k))
	}
	sort.Ints(ks)
	var sb strings.Builder
	for i, k := range ks {
		if i >= 12 {
			sb.WriteString("...")
			break
		}
		fmt.Fprintf(&sb, "%06x=%02x ", k, a[uint32(k)])
	}
	return sb.String()
}

// hazard reports the steps on which the oracle abstains because the outcome
// depends on bus micro-order the programming model does not fix: the
// instruction's own writes land on its own opcode/operand bytes (e.g. a JSL
// whose pushes overwrite the bank byte it has yet to fetch). Every other
// read/write overlap has a defined order in the model - pointers and data are
// read before the store of the same instruction, JSR (abs,X) and BRK/COP push
// before they read their pointer/vector, a read-modify-write reads before it
// writes - and is judged.
func hazard(m *mem.Image, inf ref.Info, pre ref.State) bool {
	if len(m.SWr) == 0 {
		return false
	}
	k := uint32(pre.K) << 16
	for i := 0; i < inf.Len; i++ {
		if m.SWr[k|uint32(pre.PC+uint16(i))] {
			return true
		}
	}
	return false
}

func evNames(ev uint32) []string {
	var out []string
	for i := 0; i < ref.NEvents; i++ {
		if ev&(1<<uint(i)) != 0 {
			out = append(out, ref.EvNames[i])
		}
	}
	return out
}

type cpuCase struct {
	State   string            `json:"state"`
	Stale   bool              `json:"stale"`
	Seed    uint64            `json:"image_seed"`
	Overlay map[string]string `json:"overlay"`
	Op      string            `json:"instruction"`
}

func describeCase(s0 ref.State, stale bool, img *mem.Image, inf ref.Info) cpuCase {
	ov := map[string]string{}
	for k, v := range img.Ov {
		ov[fmt.Sprintf("%06x", k)] = fmt.Sprintf("%02x", v)
	}
	return cpuCase{State: s0.String(), Stale: stale, Seed: img.Seed, Overlay: ov,
		Op: fmt.Sprintf("%02x %s %s", inf.Op, ref.MnemNames[inf.M], ref.ModeNames[inf.Mode])}
}
