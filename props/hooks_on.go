//go:build verif

package props

import (
	snes "github.com/alttpo/snes"
	"github.com/alttpo/snes/emulator/cpu65c816"
	"github.com/alttpo/snes/emulator/cpualt"
)

// hooksBuild: this binary was built with the library's verif hooks (-tags verif). Only the
// shared-state digest of C18 needs them; every other monitor runs against the library as it is
// built by default, because code selected by a build tag is different code.
const hooksBuild = true

func libSharedDigest() [3]uint64 {
	return [3]uint64{cpu65c816.VerifSharedStateDigest(), cpualt.VerifSharedStateDigest(), snes.VerifSharedStateDigest()}
}
