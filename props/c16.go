package props

import (
	"fmt"
	"io"
	"runtime"

	"github.com/alttpo/snes/asm"

	"verif/internal/vf"
)

func init() { reg("C16", C16); reg("C19", C19) }

type fullObs struct {
	emObs
	Text, Hex       string
	TextErr, HexErr string
}

func observeFull(e *asm.Emitter, names []string, listing bool) fullObs {
	o := fullObs{emObs: observe(e, names)}
	if listing {
		t, err, pan := listText(e)
		o.Text, o.TextErr = t, fmt.Sprint(err, "/", pan != nil)
		h, err, pan := listHex(e)
		o.Hex, o.HexErr = h, fmt.Sprint(err, "/", pan != nil)
	}
	return o
}

func (a fullObs) diffFull(b fullObs) string {
	if d := a.emObs.diff(b.emObs); d != "" {
		return d
	}
	switch {
	case a.TextErr != b.TextErr:
		return "WriteTextTo outcome " + a.TextErr + " vs " + b.TextErr
	case a.Text != b.Text:
		return fmt.Sprintf("text listing differs at byte %d", firstDiff([]byte(a.Text), []byte(b.Text)))
	case a.HexErr != b.HexErr:
		return "WriteHexTo outcome " + a.HexErr + " vs " + b.HexErr
	case a.Hex != b.Hex:
		return fmt.Sprintf("hex listing differs at byte %d", firstDiff([]byte(a.Hex), []byte(b.Hex)))
	}
	return ""
}

func finalizeOutcome(e *asm.Emitter) (string, error) {
	var err error
	pan := func() (p interface{}) {
		defer func() { p = recover() }()
		err = e.Finalize()
		return nil
	}()
	switch {
	case pan != nil:
		return fmt.Sprintf("panic: %v", pan), nil
	case err != nil:
		return "error", err
	}
	return "ok", nil
}

// what straddles the split at k?
func straddle(calls []hcall, k int) string {
	defBefore, defAfter := map[string]bool{}, map[string]bool{}
	refBefore, refAfter := map[string]bool{}, map[string]bool{}
	baseAfter, widthAfter := false, false
	for i, c := range calls {
		after := i >= k
		switch {
		case c.Op == "label":
			if after {
				defAfter[c.S] = true
			} else {
				defBefore[c.S] = true
			}
		case c.Op == "ins" && (c.M.Arg == aLabel8 || c.M.Arg == aLabel16):
			if after {
				refAfter[c.S] = true
			} else {
				refBefore[c.S] = true
			}
		case c.Op == "setbase" && after:
			baseAfter = true
		case after && (c.Op == "assumerep" || c.Op == "assumesep" || (c.Op == "ins" && (c.M.Name == "REP" || c.M.Name == "SEP"))):
			widthAfter = true
		}
	}
	s := ""
	for l := range refBefore {
		if defAfter[l] {
			s += "+fwdref"
			break
		}
	}
	for l := range refAfter {
		if defBefore[l] {
			s += "+backref"
			break
		}
	}
	if baseAfter {
		s += "+base"
	}
	if widthAfter {
		s += "+width"
	}
	if s == "" {
		return "nothing"
	}
	return s[1:]
}

func C16(r *vf.Run) {
	r.Rule = "generated histories x every split point (0..n, including before SetBase), plus two successive splits and a clone of the clone: tail emitted into a Clone (buffer exactly large enough or larger) and Appended back; the directly-fed emitter is the oracle for Bytes, Len, PC, GetBase, Flags, GetLabel, both listings, Finalize outcome and finalized bytes; original re-observed between Clone and Append; over-capacity Append (1-3 bytes short) must panic and leave the original unchanged; a cell is (what straddles the split, listing on/off)"
	chunks := r.N(64, 3200)
	if r.Phase("splits") {
		r.Parallel(runtime.NumCPU(), chunks, func(w, ci int) {
			g := r.Rand("hist").Fork(uint64(ci))
			cells := map[string]int64{}
			for k := 0; k < 32 && !r.TooMany(); k++ {
				listing := g.Intn(2) == 0
				calls, base, _ := genHistory(g, histOpts{maxCalls: 50, listing: listing, dataBlocks: g.Intn(3) == 0, withRefs: true, withDup: g.Intn(4) == 0})
				names := labelNames(calls)
				hs := func() []string { return histStrings(calls) }
				// direct emitter = oracle
				direct := asm.NewEmitter(make([]byte, 16384), listing)
				var dpan []bool
				for _, c := range calls {
					dpan = append(dpan, invoke(direct, c) != nil)
				}
				want := observeFull(direct, names, listing)
				wantFin, wantErr := finalizeOutcome(direct)
				wantFinBytes := append([]byte(nil), direct.Bytes()...)
				total := direct.Len()
				_ = wantErr
				// repeated and nested splitting: after an Append the emitter must be as good as a directly fed
				// one, so splitting it again (or cloning the clone) must still reproduce the direct result
				for rep := 0; rep < 6 && len(calls) >= 2; rep++ {
					a, b := g.Intn(len(calls)+1), g.Intn(len(calls)+1)
					if a > b {
						a, b = b, a
					}
					nested := g.Bool()
					orig := asm.NewEmitter(make([]byte, 16384), listing)
					for _, c := range calls[:a] {
						invoke(orig, c)
					}
					pan := vf.Try(func() {
						c1 := orig.Clone(make([]byte, 16384))
						for _, c := range calls[a:b] {
							invoke(c1, c)
						}
						if nested {
							c2 := c1.Clone(make([]byte, 16384))
							for _, c := range calls[b:] {
								invoke(c2, c)
							}
							c1.Append(c2)
							orig.Append(c1)
						} else {
							orig.Append(c1)
							c2 := orig.Clone(make([]byte, 16384))
							for _, c := range calls[b:] {
								invoke(c2, c)
							}
							orig.Append(c2)
						}
					})
					r.Eval(1)
					kind := "two-splits"
					if nested {
						kind = "nested-clones"
					}
					if pan != nil {
						r.Fail("recombined-"+kind+"-panic", fmt.Sprintf("splits at %d and %d (%s): %v", a, b, kind, pan), hs())
						continue
					}
					got := observeFull(orig, names, listing)
					if d := want.diffFull(got); d != "" {
						r.Fail("recombined-"+kind+"-differs", fmt.Sprintf("splits at %d and %d of %d (%s): direct vs recombined: %s", a, b, len(calls), kind, d), hs())
						continue
					}
					if fin, _ := finalizeOutcome(orig); fin != wantFin || (wantFin == "ok" && string(orig.Bytes()) != string(wantFinBytes)) {
						r.Fail("recombined-"+kind+"-finalize", fmt.Sprintf("splits at %d and %d (%s): Finalize direct=%s recombined=%s or finalized bytes differ", a, b, kind, wantFin, fin), hs())
						continue
					}
					cells["multi:"+kind]++
				}
				for sp := 0; sp <= len(calls); sp++ {
					r.Eval(1)
					orig := asm.NewEmitter(make([]byte, 16384), listing)
					for i, c := range calls[:sp] {
						if (invoke(orig, c) != nil) != dpan[i] {
							r.Fail("nondeterministic-refusal", fmt.Sprintf("call #%d %s refused in one emitter but not the other", i, c), hs())
						}
					}
					snap := observeFull(orig, names, listing)
					tailLen := total - orig.Len()
					cbuf := make([]byte, tailLen+[]int{0, 0, 1, 64}[g.Intn(4)])
					clone := orig.Clone(cbuf)
					mismatch := false
					for i, c := range calls[sp:] {
						if (invoke(clone, c) != nil) != dpan[sp+i] {
							r.Fail("clone-refusal-differs", fmt.Sprintf("split %d: call #%d %s refused=%v in the clone but refused=%v directly", sp, sp+i, c, !dpan[sp+i], dpan[sp+i]), hs())
							mismatch = true
							break
						}
					}
					if mismatch {
						continue
					}
					st := straddle(calls, sp)
					cell := fmt.Sprintf("%s:listing=%v", st, listing)
					if d := snap.diffFull(observeFull(orig, names, listing)); d != "" {
						r.Fail("clone-affects-original", fmt.Sprintf("split %d/%d: driving the clone changed the original before Append: %s", sp, len(calls), d), hs())
						continue
					}
					// over-capacity Append on a twin original with too little room
					if short := g.Intn(8); short >= 1 && short <= 3 && clone.Len() >= short {
						arena := make([]byte, orig.Len()+clone.Len()+64)
						small := asm.NewEmitter(arena[:orig.Len()+clone.Len()-short], listing)
						for _, c := range calls[:sp] {
							invoke(small, c)
						}
						tailClone := clone
						if g.Bool() {
							// the tail was assembled in place: in the rest of the arena the original's
							// window was cut from, right behind what the original holds
							tailClone = small.Clone(arena[small.Len():])
							for _, c := range calls[sp:] {
								invoke(tailClone, c)
							}
							cells["append-refused:tail-in-own-arena"]++
						}
						sb := observeFull(small, names, listing)
						pan := func() (p interface{}) {
							defer func() { p = recover() }()
							small.Append(tailClone)
							return nil
						}()
						if pan == nil {
							r.Fail("append-overflow-accepted", fmt.Sprintf("split %d: Append of %d bytes into %d free bytes was not refused", sp, clone.Len(), clone.Len()-short), hs())
						} else if d := sb.diffFull(observeFull(small, names, listing)); d != "" {
							r.Fail("append-overflow-modifies", fmt.Sprintf("split %d: refused Append modified the original: %s", sp, d), hs())
						}
						cells[fmt.Sprintf("append-refused:short%d", short)]++
					}
					pan := func() (p interface{}) {
						defer func() { p = recover() }()
						orig.Append(clone)
						return nil
					}()
					if pan != nil {
						r.Fail("append-panics", fmt.Sprintf("split %d: Append panicked: %v", sp, pan), hs())
						continue
					}
					got := observeFull(orig, names, listing)
					if d := want.diffFull(got); d != "" {
						key := "recombined-differs"
						if st == "base" || (len(st) >= 4 && (st[len(st)-4:] == "base" || containsPlus(st, "base"))) {
							key = "recombined-differs-base-in-tail"
						}
						r.Fail(key, fmt.Sprintf("split %d/%d (%s straddles, base %s): direct vs recombined: %s", sp, len(calls), st, base, d), hs())
						continue
					}
					gotFin, _ := finalizeOutcome(orig)
					if gotFin != wantFin {
						key := "finalize-outcome-differs"
						if containsPlus(st, "base") {
							key = "recombined-differs-base-in-tail"
						}
						r.Fail(key, fmt.Sprintf("split %d/%d (%s straddles): Finalize direct=%s recombined=%s", sp, len(calls), st, wantFin, gotFin), hs())
						continue
					}
					// after a failed Finalize the set of already-patched operands depends on map
					// iteration order even for one emitter, so bytes are compared on success only
					if wantFin == "ok" && string(orig.Bytes()) != string(wantFinBytes) {
						r.Fail("finalized-bytes-differ", fmt.Sprintf("split %d/%d (%s straddles): finalized bytes differ at %d", sp, len(calls), st, firstDiff(orig.Bytes(), wantFinBytes)), hs())
						continue
					}
					cells[cell]++
				}
				if ci == 0 && k < 2 {
					r.Sample(map[string]interface{}{"calls": hs()[:min(12, len(calls))], "splits": len(calls) + 1, "listing": listing, "finalize": wantFin})
				}
			}
			r.MergeCells(cells)
		})
	}
	if r.Phase("clone-trees") {
		chunks := r.N(64, 3200)
		r.Parallel(runtime.NumCPU(), chunks, func(w, ci int) {
			g := r.Rand("tree").Fork(uint64(ci))
			cells := map[string]int64{}
			for k := 0; k < 48 && !r.TooMany(); k++ {
				listing := g.Intn(2) == 0
				calls, _, _ := genHistory(g, histOpts{maxCalls: 60, listing: listing, dataBlocks: g.Intn(4) == 0, withRefs: true, withDup: g.Intn(4) == 0})
				names := labelNames(calls)
				hs := func() []string { return histStrings(calls) }
				// points of the sequence at which every reference made so far is resolvable: a caller that
				// finalizes after every chunk calls Finalize there (on the original, between clones)
				finalizable := make([]bool, len(calls)+1)
				{
					sh := newShadow(listing)
					for i, c := range calls {
						finalizable[i] = len(sh.refs) > 0 && sh.expectFinalize().ok
						if sh.legal(c) {
							sh.apply(c)
						}
					}
				}
				for rep := 0; rep < 4; rep++ {
					t := &cloneTree{g: g, nilMode: g.Intn(5) == 0, cells: cells, finAt: map[int]bool{}}
					var buf []byte
					if !t.nilMode {
						buf = make([]byte, 16384)
						t.finalizable = finalizable
					}
					root := asm.NewEmitter(buf, listing)
					r.Eval(1)
					pan := vf.Try(func() { t.feed(root, buf, calls, 0) })
					// the oracle: the same calls (and the same Finalize calls) made directly
					direct := asm.NewEmitter(make([]byte, 16384), listing)
					for i, c := range calls {
						if t.finAt[i] {
							_ = direct.Finalize()
						}
						invoke(direct, c)
					}
					want := observeFull(direct, names, listing)
					wantFin, _ := finalizeOutcome(direct)
					wantFinBytes := append([]byte(nil), direct.Bytes()...)
					if pan != nil {
						r.Fail("clone-tree-panic", fmt.Sprintf("emitting through %s panicked: %v", t.describe(), pan), map[string]interface{}{"calls": hs(), "tree": t.log})
						continue
					}
					got := observeFull(root, names, listing)
					if t.nilMode {
						// an emitter without a target: position, flags and labels are what it tracks
						if got.PC != want.PC || got.Flags != want.Flags || fmt.Sprint(got.Labels) != fmt.Sprint(want.Labels) {
							r.Fail("clone-tree-nil-target-differs", fmt.Sprintf("emitting through %s on buffer-less emitters: PC $%06x/$%06x flags %02x/%02x labels equal=%v", t.describe(), want.PC, got.PC, want.Flags, got.Flags, fmt.Sprint(got.Labels) == fmt.Sprint(want.Labels)), map[string]interface{}{"calls": hs(), "tree": t.log})
						}
						cells["tree:nil-target"]++
						continue
					}
					if d := want.diffFull(got); d != "" {
						r.Fail("clone-tree-differs", fmt.Sprintf("emitting through %s: direct vs recombined: %s", t.describe(), d), map[string]interface{}{"calls": hs(), "tree": t.log})
						continue
					}
					if fin, _ := finalizeOutcome(root); fin != wantFin || (wantFin == "ok" && string(root.Bytes()) != string(wantFinBytes)) {
						at := -1
						if fin == wantFin {
							at = firstDiff(root.Bytes(), wantFinBytes)
						}
						r.Fail("clone-tree-finalize", fmt.Sprintf("emitting through %s: Finalize direct=%s recombined=%s, finalized bytes differ at %d", t.describe(), wantFin, fin, at), map[string]interface{}{"calls": hs(), "tree": t.log})
						continue
					}
					cells["tree:buffered"]++
				}
			}
			r.MergeCells(cells)
		})
	}
	for _, s := range []string{"tree:nil-target", "tree:buffered", "tree:siblings", "tree:alias-target", "tree:empty-clone", "tree:state-only-clone", "tree:depth2"} {
		if r.OnlyPhase == "" || r.OnlyPhase == "clone-trees" {
			r.RequireSub(s)
		}
	}
	if r.OnlyPhase != "" && r.OnlyPhase != "splits" {
		return
	}
	for _, s := range []string{"fwdref", "backref", "base", "width", "nothing:listing=true", "nothing:listing=false", "append-refused:short1", "append-refused:short3", "multi:two-splits", "multi:nested-clones"} {
		r.RequireSub(s)
	}
}

// cloneTree feeds a call sequence to an emitter, passing stretches of it through clones: clones of
// clones, several sibling clones of one state of which one is kept, clones that receive no call or only
// calls that emit nothing, clone targets that are separate buffers or the unused tail of the parent's own.
type cloneTree struct {
	g       *vf.Rng
	nilMode bool
	// parentLabels: a Label that opens a stretch may be made on the parent while the clone is pending
	parentLabels bool
	all          []hcall // the whole history (set with parentLabels)
	cells        map[string]int64
	log          []string
	maxDep       int
	nclone       int
	// finalizable[i]: Finalize may be called on the root before calls[i] (everything referenced so far
	// resolves); finAt records where it was
	finalizable []bool
	finAt       map[int]bool
}

func (t *cloneTree) describe() string {
	return fmt.Sprintf("%d clones (depth %d, see tree)", t.nclone, t.maxDep)
}

func emitsNothing(c hcall) bool {
	return c.Op == "assumerep" || c.Op == "assumesep" || c.Op == "comment" || c.Op == "label" || (c.Op == "data" && len(c.Data) == 0)
}

func (t *cloneTree) feed(e *asm.Emitter, buf []byte, calls []hcall, depth int) {
	g := t.g
	if depth > t.maxDep {
		t.maxDep = depth
	}
	if depth >= 2 {
		t.cells["tree:depth2"]++
	}
	for i := 0; i < len(calls); {
		if depth == 0 && t.finalizable != nil && t.finalizable[i] && g.Intn(5) == 0 {
			if err := e.Finalize(); err != nil {
				panic(fmt.Errorf("Finalize before call #%d failed although everything referenced so far resolves: %v", i, err))
			}
			t.finAt[i] = true
			t.log = append(t.log, fmt.Sprintf("Finalize() on the original before call #%d", i))
			t.cells["tree:finalize-between-clones"]++
		}
		if depth >= 4 || g.Intn(5) != 0 {
			invoke(e, calls[i])
			i++
			continue
		}
		// calls[i:j] go through a clone
		j := i + g.Intn(len(calls)-i+1)
		switch g.Intn(4) {
		case 0:
			j = i // a clone that receives nothing
		case 1: // a clone that only receives calls that emit no byte
			j = i
			for j < len(calls) && emitsNothing(calls[j]) {
				j++
			}
		case 2:
			if j > i+8 {
				j = i + 1 + g.Intn(8)
			}
		}
		nsib := 1
		if g.Intn(2) == 0 {
			nsib = 2 + g.Intn(2)
			t.cells["tree:siblings"]++
		}
		chosen := g.Intn(nsib)
		sibs := make([]*asm.Emitter, nsib)
		bufs := make([][]byte, nsib)
		alias := false
		for s := range sibs {
			switch {
			case t.nilMode:
			case s == chosen && buf != nil && g.Bool():
				bufs[s] = buf[e.Len():] // the unused tail of the parent's own buffer
				if gap := g.Intn(3); gap > 0 && len(buf)-e.Len() > 12000 {
					// ... or another region of the same arena, not directly behind what the parent holds
					bufs[s] = buf[e.Len()+[]int{1, 16, 1024}[g.Intn(3)]*gap:]
					t.cells["tree:alias-target-elsewhere-in-arena"]++
				}
				alias = true
				t.cells["tree:alias-target"]++
			default:
				bufs[s] = make([]byte, 16384)
			}
			sibs[s] = e.Clone(bufs[s])
			t.nclone++
		}
		t.log = append(t.log, fmt.Sprintf("depth %d: calls[%d:%d] through clone %d of %d (alias=%v)", depth, i, j, chosen, nsib, alias))
		if j == i {
			t.cells["tree:empty-clone"]++
		} else {
			only := true
			for _, c := range calls[i:j] {
				only = only && emitsNothing(c)
			}
			if only {
				t.cells["tree:state-only-clone"]++
			}
		}
		decoy := func(s int) {
			// an abandoned candidate: a few bytes of its own, then some other stretch of the same calls
			for n := g.Intn(4); n > 0; n-- {
				invoke(sibs[s], hcall{Op: "ins", M: emByName["NOP"]})
			}
			j2 := i + g.Intn(len(calls)-i+1)
			for _, c := range calls[i:j2] {
				invoke(sibs[s], c)
			}
		}
		// where only labels, bytes and the Finalize outcome are judged (C06 - not the equivalence of C16,
		// which speaks of a head emitted before the clone is taken): the host may define the label that
		// names the fragment on the parent itself while the fragment is still being built; the program
		// counter there has not moved, so the label is where the plain sequence has it
		first := i
		once := func(name string) bool { // (a name the history tries to define again must meet its first definition)
			n := 0
			for _, c := range t.all {
				if c.Op == "label" && c.S == name {
					n++
				}
			}
			return n == 1
		}
		if t.parentLabels && j > i && !t.nilMode && calls[i].Op == "label" && once(calls[i].S) && g.Intn(2) == 0 {
			invoke(e, calls[i])
			first = i + 1
			t.log = append(t.log, fmt.Sprintf("depth %d: calls[%d] (Label) made on the parent while its clone is pending", depth, i))
			t.cells["tree:parent-labelled-while-clone-pending"]++
		}
		// until Append is called, nothing done to any clone (or to clones of clones) shows in e
		names := labelNames(calls)
		names = append(names, "the_end")
		snap := observe(e, names)
		late := -1
		for s := range sibs {
			switch {
			case s == chosen:
				t.feed(sibs[s], bufs[s], calls[first:j], depth+1)
			case g.Intn(4) == 0 && late < 0:
				late = s // driven only after the Append of its sibling
			default:
				decoy(s)
			}
		}
		if d := snap.diff(observe(e, names)); d != "" {
			panic(fmt.Errorf("at depth %d, before Append: driving the clones of an emitter changed that emitter: %s", depth, d))
		}
		if g.Intn(3) == 0 {
			// a host looking at a fragment before it decides to keep it: the listings of a clone that has not
			// been appended are nobody's business (whatever they say or do is discarded), but asking for
			// them must not change what the fragment contributes
			vf.Try(func() { _ = sibs[chosen].WriteTextTo(io.Discard) })
			vf.Try(func() { _ = sibs[chosen].WriteHexTo(io.Discard) })
			t.cells["tree:clone-listed-before-append"]++
		}
		e.Append(sibs[chosen])
		if late >= 0 {
			decoy(late)
		}
		i = j
	}
}

func failedHere(r *vf.Run, before int) bool { return r.Violations() != before }

func containsPlus(s, part string) bool {
	for _, p := range splitPlus(s) {
		if p == part {
			return true
		}
	}
	return false
}

func splitPlus(s string) []string {
	var out []string
	cur := ""
	for i := 0; i < len(s); i++ {
		if s[i] == '+' {
			out = append(out, cur)
			cur = ""
		} else {
			cur += string(s[i])
		}
	}
	return append(out, cur)
}

// C19: all-or-nothing emission at capacity; nil-target emitters track equally.
func C19(r *vf.Run) {
	r.Rule = "generated histories (a third of them re-basing with SetBase in mid-stream) replayed at every capacity from 0 to the program size (thorough) or at capacities 0-3 bytes short of every call boundary (quick): a call fits iff Len+size <= Cap; a call that does not fit must be refused leaving Bytes(), the target buffer, Len, PC and labels unchanged, a call that fits must be accepted; the same bound for bytes arriving by Append of a clone whose target is a separate buffer or the unused part of the arena the parent's window was cut from; single data blocks of 2^16-1 to 2^17+3 bytes into targets that fit exactly or are 1-4 bytes, 2^16 bytes or a whole block short; a nil-target emitter (from NewEmitter(nil) or Clone(nil) of a buffered or buffer-less parent) runs in lockstep with a roomy one on PC, GetLabel and Flags; a cell is (kind of refused call, bytes short) or nil-target call kind"
	r.Assume = []string{"tracked flags and listing lines after a refused call are not among the observables the statement enumerates"}
	if r.Phase("capacity") {
		chunks := r.N(32, 1600)
		r.Parallel(runtime.NumCPU(), chunks, func(w, ci int) {
			g := r.Rand("cap").Fork(uint64(ci))
			cells := map[string]int64{}
			for k := 0; k < 24 && !r.TooMany(); k++ {
				listing := g.Intn(3) == 0
				rebase := g.Intn(3) == 0
				calls, _, _ := genHistory(g, histOpts{maxCalls: 60, listing: listing, dataBlocks: g.Intn(3) == 0, withRefs: true, withDup: g.Intn(5) == 0, rebase: rebase})
				names := labelNames(calls)
				hs := func() []string { return histStrings(calls) }
				// program size and call boundaries from the shadow
				sz := newShadow(listing)
				var bounds []int
				for _, c := range calls {
					if sz.legal(c) {
						sz.apply(c)
					}
					bounds = append(bounds, len(sz.code))
				}
				size := len(sz.code)
				capSet := map[int]bool{0: true, size: true}
				if r.Quick() || size > 1200 {
					for _, b := range bounds {
						for s := 0; s <= 3; s++ {
							if b-s >= 0 {
								capSet[b-s] = true
							}
						}
					}
				} else {
					for c := 0; c <= size; c++ {
						capSet[c] = true
					}
				}
				for capacity := range capSet {
					buf := make([]byte, capacity+8) // 8 guard bytes beyond the capacity handed to the emitter
					for i := range buf {
						buf[i] = 0xCC
					}
					// the target is a window of the caller's buffer: cut with or without spare capacity behind
					// it (the 8 guard bytes); what the emitter may fill is its length either way
					target := buf[:capacity:capacity]
					if capacity%2 == 1 || g.Intn(3) == 0 {
						target = buf[:capacity]
					}
					e := asm.NewEmitter(target, listing)
					sh := newShadow(listing)
					before0 := r.Violations()
					labelOperandAt := map[int]bool{} // buffer offsets of operand bytes of accepted label-taking calls
					r.Eval(1)
					for i, c := range calls {
						legal := sh.legal(c)
						fits := len(sh.code)+c.size() <= capacity
						before := observe(e, names)
						bufBefore := append([]byte(nil), buf...)
						pan := invoke(e, c)
						if e.Len() > e.Cap() || e.Cap() != capacity {
							r.Fail("len-exceeds-cap", fmt.Sprintf("capacity %d: after call #%d %s Len=%d Cap=%d", capacity, i, c, e.Len(), e.Cap()), hs())
							break
						}
						if string(buf[capacity:]) != string(bufBefore[capacity:]) {
							r.Fail("write-beyond-capacity", fmt.Sprintf("capacity %d: call #%d %s wrote beyond the target's capacity", capacity, i, c), hs())
							break
						}
						if legal && fits {
							if pan != nil {
								r.Fail("fitting-call-refused", fmt.Sprintf("capacity %d: call #%d %s (size %d, Len %d) fits but was refused: %v", capacity, i, c, c.size(), len(sh.code), pan), hs())
								break
							}
							if c.Op == "ins" && (c.M.Arg == aLabel8 || c.M.Arg == aLabel16) {
								for k := 1; k < c.size(); k++ {
									labelOperandAt[len(sh.code)+k] = true
								}
							}
							sh.apply(c)
							if n := len(sh.code); n <= capacity && string(buf[n:capacity]) != string(bufBefore[n:capacity]) {
								r.Fail("accepted-call-writes-behind-itself", fmt.Sprintf("capacity %d: call #%d %s changed target byte %d, behind the %d bytes emitted so far", capacity, i, c, n+firstDiff(buf[n:capacity], bufBefore[n:capacity]), n), hs())
								break
							}
							if e.Len() != len(sh.code) || e.PC() != sh.addr {
								r.Fail("accepted-call-bookkeeping", fmt.Sprintf("capacity %d: after call #%d %s Len=%d PC=$%06x expected %d/$%06x", capacity, i, c, e.Len(), e.PC(), len(sh.code), sh.addr), hs())
								break
							}
							continue
						}
						short := len(sh.code) + c.size() - capacity
						kind := c.Op
						if c.Op == "ins" {
							kind = fmt.Sprintf("ins%d", c.size())
							if c.M.Arg == aLabel8 || c.M.Arg == aLabel16 {
								kind += "-label"
							}
						}
						if pan == nil {
							if !fits {
								r.Fail("overflowing-call-accepted-"+kind, fmt.Sprintf("capacity %d: call #%d %s (size %d) at Len %d does not fit but was accepted", capacity, i, c, c.size(), len(sh.code)), hs())
							} else {
								r.Fail("illegal-call-accepted", fmt.Sprintf("call #%d %s must be rejected", i, c), hs())
							}
							break
						}
						after := observe(e, names)
						after.Flags = before.Flags // not enumerated by the statement
						if d := before.diff(after); d != "" {
							r.Fail("refused-call-changed-"+kind, fmt.Sprintf("capacity %d: refused call #%d %s (%d bytes short) changed %s", capacity, i, c, short, d), hs())
							break
						}
						if string(buf) != string(bufBefore) {
							r.Fail("refused-call-wrote-buffer-"+kind, fmt.Sprintf("capacity %d: refused call #%d %s (%d bytes short) wrote target byte %d", capacity, i, c, short, firstDiff(buf, bufBefore)), hs())
							break
						}
						if !fits {
							sc := short
							if sc > 4 {
								sc = 4
							}
							cells[fmt.Sprintf("refused:%s:short%d", kind, sc)]++
						}
						sh.flags = byte(e.Flags()) // a refused REP/SEP may still have moved the tracker (not judged)
					}
					// "refused as a whole": what the emitter goes on to do must be what it would do had the
					// refused calls never been made - resolve the references of the accepted calls, no others
					if !failedHere(r, before0) && rebase && len(labelOperandAt) == 0 {
						// with several bases label resolution is not specified; but when no label-taking method
						// was called at all there is nothing to resolve and Finalize has no byte to touch
						pre := append([]byte(nil), e.Bytes()...)
						pan := vf.Try(func() { _ = e.Finalize() })
						post := e.Bytes()
						if pan == nil && len(post) == len(pre) {
							for i := range pre {
								if pre[i] != post[i] && !labelOperandAt[i] {
									r.Fail("finalize-touches-byte-without-references", fmt.Sprintf("capacity %d: no label-taking method was called, yet Finalize changed byte %d (%02x -> %02x)", capacity, i, pre[i], post[i]), hs())
									break
								}
							}
							cells["finalize-after-rebase"]++
						}
					}
					if !failedHere(r, before0) && !rebase { // (label resolution is specified for one base only)
						fe := sh.expectFinalize()
						var ferr error
						pan := vf.Try(func() { ferr = e.Finalize() })
						switch {
						case pan != nil:
							r.Fail("finalize-after-refusals-panics", fmt.Sprintf("capacity %d: Finalize after the history (with refused calls) panicked: %v", capacity, pan), hs())
						case fe.ok && ferr != nil:
							r.Fail("finalize-after-refusals-fails", fmt.Sprintf("capacity %d: every reference of the accepted calls is resolvable, but Finalize reports %v", capacity, ferr), hs())
						case !fe.ok && ferr == nil:
							r.Fail("finalize-after-refusals-succeeds", fmt.Sprintf("capacity %d: Finalize succeeded although accepted calls reference undefined or out-of-range labels", capacity), hs())
						case fe.ok && string(e.Bytes()) != string(fe.code):
							r.Fail("finalize-after-refusals-bytes", fmt.Sprintf("capacity %d: after Finalize byte %d differs from the accepted calls' finalized encoding", capacity, firstDiff(e.Bytes(), fe.code)), hs())
						default:
							cells[fmt.Sprintf("finalize-after-refusals:ok=%v", fe.ok)]++
						}
					}
				}
				if ci == 0 && k < 2 {
					r.Sample(map[string]interface{}{"calls": hs()[:min(10, len(calls))], "program_size": size, "capacities_tried": len(capSet)})
				}
			}
			r.MergeCells(cells)
		})
	}
	if r.Phase("huge-blocks") {
		// one call's payload as the varied dimension: data blocks of a whole bank and more (2^16-1 .. 2^17+3
		// bytes) into targets 0-4 bytes, exactly 2^16 bytes, or one whole block short, behind 0-2 small calls
		g := r.Rand("huge")
		cells := map[string]int64{}
		sizes := []int{0xFFFF, 0x10000, 0x10001, 0x10004, 0x1FFFF, 0x20000, 0x20003}
		for si, L := range sizes {
			blk := make([]byte, L)
			for i := range blk {
				blk[i] = byte(g.Intn(256))
			}
			for pre := 0; pre <= 2; pre++ {
				for _, short := range []int{0, 1, 2, 3, 4, 0x10000, L - 1, L} {
					if r.TooMany() {
						break
					}
					capacity := pre + L - short
					if capacity < pre {
						continue
					}
					listing := short != 0 && (si+pre)%3 == 0
					buf := make([]byte, capacity+8)
					for i := range buf {
						buf[i] = 0xCC
					}
					e := asm.NewEmitter(buf[:capacity], listing)
					for i := 0; i < pre; i++ {
						e.NOP()
					}
					before := observe(e, nil)
					bufBefore := append([]byte(nil), buf...)
					r.Eval(1)
					pan := vf.Try(func() { e.EmitBytes(blk) })
					h := []string{fmt.Sprintf("NewEmitter(%d bytes, listing=%v)", capacity, listing), fmt.Sprintf("NOP x%d", pre), fmt.Sprintf("EmitBytes(%d bytes)", L)}
					if string(buf[capacity:]) != string(bufBefore[capacity:]) || e.Len() > e.Cap() {
						r.Fail("huge-block-beyond-capacity", fmt.Sprintf("EmitBytes(%d bytes) at Len %d, capacity %d: Len=%d Cap=%d or guard bytes written", L, pre, capacity, e.Len(), e.Cap()), h)
						continue
					}
					if short == 0 {
						if pan != nil {
							r.Fail("huge-block-refused", fmt.Sprintf("EmitBytes(%d bytes) at Len %d fits capacity %d exactly but was refused: %v", L, pre, capacity, pan), h)
						} else if e.Len() != pre+L || string(e.Bytes()[pre:]) != string(blk) || e.PC() != before.PC+uint32(L) {
							r.Fail("huge-block-accepted-wrongly", fmt.Sprintf("EmitBytes(%d bytes) at Len %d: Len=%d PC=$%06x, expected %d/$%06x and the block's bytes", L, pre, e.Len(), e.PC(), pre+L, before.PC+uint32(L)), h)
						}
						cells[fmt.Sprintf("huge:%d:fits", L>>16)]++
						continue
					}
					sc := "short<=4"
					if short > 4 {
						sc = "short>=2^16"
						if short < 0x10000 {
							sc = "short<2^16"
						}
					}
					if pan == nil {
						r.Fail("overflowing-call-accepted-huge-block", fmt.Sprintf("EmitBytes(%d bytes) at Len %d with %d bytes of room (%d short) was accepted: Len=%d PC=$%06x", L, pre, capacity-pre, short, e.Len(), e.PC()), h)
						continue
					}
					after := observe(e, nil)
					after.Flags = before.Flags
					if d := before.diff(after); d != "" {
						r.Fail("refused-call-changed-huge-block", fmt.Sprintf("refused EmitBytes(%d bytes) (%d short) changed %s", L, short, d), h)
					} else if string(buf) != string(bufBefore) {
						r.Fail("refused-call-wrote-buffer-huge-block", fmt.Sprintf("refused EmitBytes(%d bytes) (%d short) wrote target byte %d", L, short, firstDiff(buf, bufBefore)), h)
					}
					cells[fmt.Sprintf("huge:%d:%s", L>>16, sc)]++
				}
			}
		}
		r.MergeCells(cells)
	}
	if r.Phase("append-capacity") {
		// the other way bytes get into an emitter: Append of a clone. The clone's target is a separate
		// buffer or the unused part of the arena the parent's own window was cut from.
		chunks := r.N(32, 1600)
		r.Parallel(runtime.NumCPU(), chunks, func(w, ci int) {
			g := r.Rand("appcap").Fork(uint64(ci))
			cells := map[string]int64{}
			for k := 0; k < 40 && !r.TooMany(); k++ {
				listing := g.Intn(3) == 0
				calls, _, _ := genHistory(g, histOpts{maxCalls: 40, listing: listing, dataBlocks: g.Intn(3) == 0, withRefs: true})
				names := labelNames(calls)
				hs := func() []string { return histStrings(calls) }
				for rep := 0; rep < 6; rep++ {
					sp := g.Intn(len(calls) + 1)
					sz := newShadow(listing)
					for _, c := range calls[:sp] {
						if sz.legal(c) {
							sz.apply(c)
						}
					}
					prefix := len(sz.code)
					for _, c := range calls[sp:] {
						if sz.legal(c) {
							sz.apply(c)
						}
					}
					tail := len(sz.code) - prefix
					short := []int{-2, 0, 0, 1, 1, 2, 3, 1 + g.Intn(tail+1)}[g.Intn(8)]
					if short > tail {
						short = tail
					}
					capacity := prefix + tail - short
					arena := make([]byte, prefix+tail+64)
					for i := range arena {
						arena[i] = 0xCC
					}
					var window []byte
					alias := g.Bool()
					if alias {
						window = arena[:capacity] // the rest of the arena stays reachable through cap()
					} else {
						window = arena[:capacity:capacity]
					}
					parent := asm.NewEmitter(window, listing)
					for _, c := range calls[:sp] {
						invoke(parent, c)
					}
					if parent.Len() != prefix {
						break // prefix handling is the capacity phase's concern
					}
					var clone *asm.Emitter
					if alias {
						clone = parent.Clone(arena[parent.Len():])
					} else {
						clone = parent.Clone(make([]byte, tail+8))
					}
					for _, c := range calls[sp:] {
						invoke(clone, c)
					}
					if clone.Len() != tail {
						r.Fail("append-capacity-clone-len", fmt.Sprintf("split %d: clone holds %d bytes, expected %d", sp, clone.Len(), tail), hs())
						break
					}
					before := observe(parent, names)
					r.Eval(1)
					pan := vf.Try(func() { parent.Append(clone) })
					kind := fmt.Sprintf("alias=%v", alias)
					if parent.Len() > parent.Cap() || parent.Cap() != capacity || len(parent.Bytes()) > capacity {
						r.Fail("len-exceeds-cap-after-append", fmt.Sprintf("split %d (%s): after Append of %d bytes to %d of capacity %d: Len=%d Cap=%d len(Bytes())=%d", sp, kind, tail, prefix, capacity, parent.Len(), parent.Cap(), len(parent.Bytes())), hs())
						break
					}
					if short > 0 {
						if pan == nil {
							r.Fail("overflowing-append-accepted", fmt.Sprintf("split %d (%s): Append of %d bytes to %d of capacity %d was accepted", sp, kind, tail, prefix, capacity), hs())
							break
						}
						after := observe(parent, names)
						after.Flags = before.Flags
						if d := before.diff(after); d != "" {
							r.Fail("refused-append-changed", fmt.Sprintf("split %d (%s): refused Append (%d short) changed %s", sp, kind, short, d), hs())
							break
						}
						sc := short
						if sc > 4 {
							sc = 4
						}
						cells[fmt.Sprintf("append-refused:%s:short%d", kind, sc)]++
					} else {
						if pan != nil {
							r.Fail("fitting-append-refused", fmt.Sprintf("split %d (%s): Append of %d bytes to %d of capacity %d was refused: %v", sp, kind, tail, prefix, capacity, pan), hs())
							break
						}
						if parent.Len() != prefix+tail || parent.PC() != sz.addr || string(parent.Bytes()) != string(sz.code) {
							r.Fail("accepted-append-bookkeeping", fmt.Sprintf("split %d (%s): after Append Len=%d PC=$%06x expected %d/$%06x, bytes equal=%v", sp, kind, parent.Len(), parent.PC(), prefix+tail, sz.addr, string(parent.Bytes()) == string(sz.code)), hs())
							break
						}
						cells[fmt.Sprintf("append-fits:%s:spare%d", kind, -short)]++
					}
				}
			}
			r.MergeCells(cells)
		})
	}
	if r.Phase("nil-target") {
		chunks := r.N(32, 1600)
		r.Parallel(runtime.NumCPU(), chunks, func(w, ci int) {
			g := r.Rand("nil").Fork(uint64(ci))
			cells := map[string]int64{}
			for k := 0; k < 100 && !r.TooMany(); k++ {
				listing := g.Intn(3) == 0
				calls, _, _ := genHistory(g, histOpts{maxCalls: 150, listing: listing, dataBlocks: g.Intn(3) == 0, withRefs: true, withDup: g.Intn(4) == 0, rebase: g.Intn(3) == 0})
				if g.Intn(6) == 0 {
					// SetBase takes any 32-bit value: a base just below 2^32 (the counter wraps mid-program)
					// or 2^24 is a call sequence like any other
					top := []uint32{0xFFFFFFFF, 0x00FFFFFF, 0x7FFFFFFF}[g.Intn(3)]
					calls = append([]hcall{{Op: "setbase", Arg: top - uint32(g.Intn(400))}}, calls...)
					cells["nil-base-near-limit"]++
				}
				names := labelNames(calls)
				if g.Intn(5) == 0 {
					// a size-measuring run that builds its program the way the real one will: through clones
					// (themselves without a target) that are appended back
					realT := asm.NewEmitter(make([]byte, 16384), listing)
					for _, c := range calls {
						invoke(realT, c)
					}
					dryT := asm.NewEmitter(nil, listing)
					t := &cloneTree{g: g, nilMode: true, cells: cells}
					if pan := vf.Try(func() { t.feed(dryT, nil, calls, 0) }); pan != nil {
						r.Fail("nil-target-clone-tree-panic", fmt.Sprintf("a buffer-less emitter fed through %s panicked: %v", t.describe(), pan), map[string]interface{}{"calls": histStrings(calls), "tree": t.log})
					} else if a, b := observe(realT, names), observe(dryT, names); a.PC != b.PC || a.Flags != b.Flags || fmt.Sprint(a.Labels) != fmt.Sprint(b.Labels) {
						r.Fail("nil-target-clone-tree-differs", fmt.Sprintf("a buffer-less emitter fed through %s: PC $%06x (with buffer $%06x), flags %02x (%02x), labels equal=%v", t.describe(), b.PC, a.PC, b.Flags, a.Flags, fmt.Sprint(a.Labels) == fmt.Sprint(b.Labels)), map[string]interface{}{"calls": histStrings(calls), "tree": t.log})
					}
					cells["nil:through-clone-tree"]++
					r.Eval(1)
				}
				real := asm.NewEmitter(make([]byte, 16384), listing)
				dry := asm.NewEmitter(nil, listing)
				// every way of creating an emitter without / with a target buffer: NewEmitter, or Clone of a
				// buffered or buffer-less parent after a prefix of the history
				how := g.Intn(4)
				start := 0
				if how > 0 && len(calls) > 0 {
					start = g.Intn(len(calls))
					var parent *asm.Emitter
					if how == 2 {
						parent = asm.NewEmitter(nil, listing) // buffer-less parent
					} else {
						parent = asm.NewEmitter(make([]byte, 16384), listing) // buffered parent
					}
					for _, c := range calls[:start] {
						invoke(parent, c)
					}
					dry = parent.Clone(nil)
					real = parent.Clone(make([]byte, 16384))
				}
				cells[fmt.Sprintf("nil-created:%d", how)]++
				r.Eval(1)
				for i, c := range calls {
					if i < start {
						continue
					}
					pr, pd := invoke(real, c), invoke(dry, c)
					if (pr != nil) != (pd != nil) {
						r.Fail("nil-target-acceptance", fmt.Sprintf("call #%d %s: real emitter panic=%v, nil-target panic=%v", i, c, pr, pd), histStrings(calls[:i+1]))
						break
					}
					a, b := observe(real, names), observe(dry, names)
					if a.PC != b.PC || a.Flags != b.Flags {
						r.Fail("nil-target-tracking-"+c.Op, fmt.Sprintf("after call #%d %s: real PC=$%06x flags=%02x, nil-target PC=$%06x flags=%02x", i, c, a.PC, a.Flags, b.PC, b.Flags), histStrings(calls[:i+1]))
						break
					}
					bad := false
					for n, v := range a.Labels {
						if b.Labels[n] != v {
							r.Fail("nil-target-labels", fmt.Sprintf("after call #%d %s: GetLabel(%q) real=%s nil-target=%s", i, c, n, v, b.Labels[n]), histStrings(calls[:i+1]))
							bad = true
							break
						}
					}
					if bad {
						break
					}
					kind := c.Op
					if c.Op == "ins" {
						kind = fmt.Sprintf("ins%d", c.size())
					}
					cells["nil:"+kind]++
				}
			}
			r.MergeCells(cells)
		})
	}
	for _, s := range []string{"refused:ins2:short1", "refused:ins3:short1", "refused:ins3:short2", "refused:ins4:short3", "refused:data:short1", "refused:data:short4", "-label:short1", "nil:data", "nil:label", "nil:ins4", "nil-created:1", "nil-created:2",
		"append-refused:alias=true:short1", "append-refused:alias=false:short1", "append-refused:alias=true:short4", "append-fits:alias=true:spare0", "append-fits:alias=false:spare0"} {
		r.RequireSub(s)
	}
}
