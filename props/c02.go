package props

import (
	"fmt"
	"io"
	"os"
	"runtime"

	"github.com/alttpo/snes/emulator"
	"github.com/alttpo/snes/emulator/bus"
	"github.com/alttpo/snes/emulator/cpualt"
	"github.com/alttpo/snes/emulator/memory"

	"verif/internal/mem"
	"verif/internal/ref"
	"verif/internal/vf"
)

func init() { reg("C02", C02); reg("C08", C08) }

// forwardingPort: like the console's work-RAM data port - every access is forwarded through the bus to
// work RAM at an auto-incrementing pointer.
type forwardingPort struct {
	b   *bus.Bus
	ptr uint32
}

func (p *forwardingPort) Read(a uint32) byte {
	v := p.b.EaRead(0x7E0000 + p.ptr&0x1FFFF)
	p.ptr++
	return v
}
func (p *forwardingPort) Write(a uint32, v byte) { p.b.EaWrite(0x7E0000+p.ptr&0x1FFFF, v); p.ptr++ }
func (p *forwardingPort) Shutdown()              {}
func (p *forwardingPort) Size() uint32           { return 16 }
func (p *forwardingPort) Clear()                 {}
func (p *forwardingPort) Dump(uint32) []byte     { return nil }

// forwardingMirror forwards its window to another range of the same bus.
type forwardingMirror struct {
	b  *bus.Bus
	to uint32
}

func (m *forwardingMirror) Read(a uint32) byte     { return m.b.EaRead(m.to + a&0xFFF) }
func (m *forwardingMirror) Write(a uint32, v byte) { m.b.EaWrite(m.to+a&0xFFF, v) }
func (m *forwardingMirror) Shutdown()              {}
func (m *forwardingMirror) Size() uint32           { return 0x1000 }
func (m *forwardingMirror) Clear()                 {}
func (m *forwardingMirror) Dump(uint32) []byte     { return nil }

// diffWorker runs the two interpreters side by side (no model).
type diffWorker struct {
	r     *vf.Run
	rig   *cpuRig
	cells map[string]int64
	extra map[string]int64
	// skipMem: leave the O(writes) memory comparison out of this step (long runs compare at intervals)
	skipMem bool
}

func newDiffWorker(r *vf.Run) *diffWorker {
	rig, _ := rigPool.Get().(*cpuRig)
	if rig == nil {
		rig = newRig()
	}
	return &diffWorker{r: r, rig: rig, cells: map[string]int64{}, extra: map[string]int64{}}
}

func (w *diffWorker) flush() {
	w.r.MergeCells(w.cells)
	for k, v := range w.extra {
		w.r.AddExtra(k, v)
	}
	rigPool.Put(w.rig)
	w.rig = nil
}

// altFirst (child process, VERIF_ALT_FIRST=1): the alternative interpreter is the first of the two
// packages to be used in the process and steps first in every pair.
var altFirst = os.Getenv("VERIF_ALT_FIRST") != ""

func (w *diffWorker) stepBoth(mp, ma *mem.Image) (rp, ra stepRes) {
	if altFirst {
		ra = w.rig.stepAlt(ma)
		rp = w.rig.stepPrim(mp)
		return
	}
	rp = w.rig.stepPrim(mp)
	ra = w.rig.stepAlt(ma)
	return
}

func modeCell(s ref.State) string {
	e := 0
	if s.E {
		e = 1
	}
	dl := 0
	if s.D&0xFF != 0 {
		dl = 1
	}
	return fmt.Sprintf("e%d:m%d:x%d:d%d:dl%d", e, s.P>>5&1, s.P>>4&1, s.P>>3&1, dl)
}

func opName(op byte) string {
	return fmt.Sprintf("%02x %s %s", op, ref.MnemNames[ref.Table[op].M], ref.ModeNames[ref.Table[op].Mode])
}

// compareSides checks observational equality after one step. Returns false on a violation.
func (w *diffWorker) compareSides(op byte, pre ref.State, rp, ra stepRes, mp, ma *mem.Image, where string, detail func() interface{}) bool {
	name := opName(op)
	if (rp.pan != nil) != (ra.pan != nil) {
		w.r.Fail("one-side-panics:"+ref.ModeNames[ref.Table[op].Mode], fmt.Sprintf("%s %s: primary panic=%v alternative panic=%v | pre={%v}", where, name, rp.pan, ra.pan, pre), detail())
		return false
	}
	if rp.pan != nil {
		w.extra["both_panicked"]++
		return false // nothing to compare; C08's concern
	}
	sp, sa := absPrim(&w.rig.prim), absAlt(w.rig.alt)
	if d := diffState(sp, sa); len(d) > 0 {
		w.r.Fail("state:"+ref.MnemNames[ref.Table[op].M]+" "+ref.ModeNames[ref.Table[op].Mode], fmt.Sprintf("%s %s: %v differ: primary={%v} alternative={%v} | pre={%v}", where, name, d, sp, sa, pre), detail())
		return false
	}
	if rp.cycles != ra.cycles || rp.stopped != ra.stopped {
		w.r.Fail("cycles:"+ref.MnemNames[ref.Table[op].M]+" "+ref.ModeNames[ref.Table[op].Mode], fmt.Sprintf("%s %s: Step()=(%d,%v) vs (%d,%v) | pre={%v}", where, name, rp.cycles, rp.stopped, ra.cycles, ra.stopped, pre), detail())
		return false
	}
	if w.rig.prim.AllCycles != w.rig.alt.AllCycles {
		w.r.Fail("allcycles", fmt.Sprintf("%s %s: AllCycles %d vs %d", where, name, w.rig.prim.AllCycles, w.rig.alt.AllCycles), detail())
		return false
	}
	if w.rig.prim.WDM != w.rig.alt.WDM {
		w.r.Fail("wdm", fmt.Sprintf("%s %s: WDM %02x vs %02x", where, name, w.rig.prim.WDM, w.rig.alt.WDM), detail())
		return false
	}
	if mp.KeepLog && ma.KeepLog {
		// what the memory devices see: the same bytes written to the same addresses in the same order
		// (a device whose cells are not independent - a port mirrored over its window - sees the order)
		var wp, wa []mem.Access
		for _, x := range mp.Log {
			if x.Write {
				wp = append(wp, x)
			}
		}
		for _, x := range ma.Log {
			if x.Write {
				wa = append(wa, x)
			}
		}
		{
			// ... and the same reads: a register that reacts to being read (clear-on-read flags,
			// auto-increment ports) makes an extra or missing read a difference in memory contents
			var rp2, ra2 []mem.Access
			for _, x := range mp.Log {
				if !x.Write {
					rp2 = append(rp2, x)
				}
			}
			for _, x := range ma.Log {
				if !x.Write {
					ra2 = append(ra2, x)
				}
			}
			if fmt.Sprint(rp2) != fmt.Sprint(ra2) {
				w.r.Fail("read-order:"+ref.MnemNames[ref.Table[op].M]+" "+ref.ModeNames[ref.Table[op].Mode], fmt.Sprintf("%s %s: bus reads primary %v alternative %v | pre={%v}", where, name, rp2, ra2, pre), detail())
				return false
			}
		}
		if fmt.Sprint(wp) != fmt.Sprint(wa) {
			w.r.Fail("write-order:"+ref.MnemNames[ref.Table[op].M]+" "+ref.ModeNames[ref.Table[op].Mode], fmt.Sprintf("%s %s: bus writes (address value) primary %v alternative %v | pre={%v}", where, name, wp, wa, pre), detail())
			return false
		}
	}
	if w.skipMem {
		return true
	}
	if a, same := mem.SameWrites(mp, ma); !same {
		w.r.Fail("memory:"+ref.MnemNames[ref.Table[op].M]+" "+ref.ModeNames[ref.Table[op].Mode], fmt.Sprintf("%s %s: memory differs at $%06x: primary {%s} alternative {%s} | pre={%v}", where, name, a, fmtWrites(mp.Wr), fmtWrites(ma.Wr), pre), detail())
		return false
	}
	p, a := &w.rig.prim, w.rig.alt
	if p.RA != a.RA || p.RAl != a.RAl || p.RAh != a.RAh || p.RX != a.RX || p.RXl != a.RXl || p.RY != a.RY || p.RYl != a.RYl {
		w.extra["raw_copy_divergences"]++ // not observable through the architectural registers (yet)
	}
	return true
}

// emuAim builds a state for any mode e/m/x/d (E=1 forces M=X=1).
func modeState(g *vf.Rng, op byte, e bool, mx byte, d byte) (ref.State, *mem.Image) {
	s, img := aimCase(g, op, mx)
	s.P = s.P&^0x08 | d<<3
	if e {
		s.E = true
		s.P |= 0x30
		s.X &= 0xFF
		s.Y &= 0xFF
		s.S = 0x0100 | s.S&0xFF
	}
	return s, img
}

func (w *diffWorker) single(s0 ref.State, base *mem.Image, stale bool, g *vf.Rng, where string) bool {
	mp, ma := base.Clone(), base.Clone()
	mp.KeepLog, ma.KeepLog = true, true // the order of the bus writes of one step is compared too
	w.rig.loadPrim(s0, stale, g)
	w.rig.loadAltFromPrim()
	op := base.Peek(uint32(s0.K)<<16 | uint32(s0.PC))
	rp, ra := w.stepBoth(mp, ma)
	w.r.Eval(1)
	ok := w.compareSides(op, s0, rp, ra, mp, ma, where, func() interface{} {
		return describeCase(s0, stale, base, ref.Info{Op: op, M: ref.Table[op].M, Mode: ref.Table[op].Mode})
	})
	w.cells[fmt.Sprintf("op%02x:%s", op, modeCell(s0))]++
	return ok
}

func (w *diffWorker) program(s0 ref.State, base *mem.Image, stale bool, g *vf.Rng, maxSteps int) (int, string) {
	mp, ma := base.Clone(), base.Clone()
	mp.NoRdSet, ma.NoRdSet = true, true
	w.rig.loadPrim(s0, stale, g)
	w.rig.loadAltFromPrim()
	if g.Bool() {
		w.rig.observeFromHooks()
	}
	sawE := map[bool]bool{}
	for step := 0; step < maxSteps; step++ {
		pre := absPrim(&w.rig.prim)
		sawE[pre.E] = true
		op := mp.Peek(uint32(pre.K)<<16 | uint32(pre.PC))
		// interrupt requests are inputs too: raise the same one on both sides now and then
		switch g.Intn(40) {
		case 0:
			w.rig.prim.TriggerIRQ()
			w.rig.alt.TriggerIRQ()
			w.cells["interrupt:irq-requested"]++
		case 1:
			w.rig.prim.Interrupt, w.rig.alt.Interrupt = 2, 2 // NMI
			w.cells["interrupt:nmi-requested"]++
		}
		// so are the other host-side entry points, applied identically to both between two steps
		if g.Intn(50) == 0 {
			w.rig.bm.M, w.rig.am = mp, ma
			var hp, ha interface{}
			what := ""
			switch g.Intn(4) {
			case 0:
				what = "Reset()"
				hp = vf.Try(func() { w.rig.prim.Reset() })
				ha = vf.Try(func() { w.rig.alt.Reset() })
			case 1:
				what = "SetFlags(Flags())"
				hp = vf.Try(func() { w.rig.prim.SetFlags(w.rig.prim.Flags()) })
				ha = vf.Try(func() { w.rig.alt.SetFlags(w.rig.alt.Flags()) })
			case 2:
				f := g.U8()
				what = fmt.Sprintf("SetFlags($%02x)", f)
				hp = vf.Try(func() { w.rig.prim.SetFlags(f) })
				ha = vf.Try(func() { w.rig.alt.SetFlags(f) })
			default:
				what = "DisassembleCurrentPC"
				hp = vf.Try(func() { w.rig.prim.DisassembleCurrentPC(nil) })
				ha = vf.Try(func() { w.rig.alt.DisassembleCurrentPC(io.Discard) })
			}
			w.cells["host-call:"+what[:4]]++
			sp, sa := absPrim(&w.rig.prim), absAlt(w.rig.alt)
			if d := diffState(sp, sa); len(d) > 0 || (hp != nil) != (ha != nil) {
				w.r.Fail("host-call:"+what[:4], fmt.Sprintf("program step %d: after %s on both: %v differ (panics %v/%v): primary={%v} alternative={%v} | before={%v}", step, what, d, hp, ha, sp, sa, pre), nil)
				return step, "violation"
			}
			pre = sp
			op = mp.Peek(uint32(pre.K)<<16 | uint32(pre.PC))
		}
		rp, ra := w.stepBoth(mp, ma)
		w.r.Eval(1)
		if !w.compareSides(op, pre, rp, ra, mp, ma, fmt.Sprintf("program step %d", step), func() interface{} {
			return map[string]interface{}{"program_start": s0.String(), "image_seed": base.Seed, "step": step, "pre_step_state": pre.String(), "instruction": opName(op), "overlay_bytes": len(base.Ov)}
		}) {
			if rp.pan != nil && ra.pan != nil {
				return step, "both-panicked"
			}
			return step, "violation"
		}
		w.cells[fmt.Sprintf("op%02x:%s", op, modeCell(pre))]++
		if rp.stopped {
			// a host may keep stepping a stopped CPU: whatever that does, it does the same on both sides
			// (registers, memory, cycles and the stopped result)
			for k := 0; k < 4; k++ {
				pre2 := absPrim(&w.rig.prim)
				op2 := mp.Peek(uint32(pre2.K)<<16 | uint32(pre2.PC))
				r2, a2 := w.stepBoth(mp, ma)
				w.r.Eval(1)
				if r2.pan == nil && a2.pan == nil && (r2.stopped != a2.stopped) {
					w.r.Fail("stopped-after-stp", "after STP the two interpreters disagree on the stopped result", nil)
				}
				if !w.compareSides(op2, pre2, r2, a2, mp, ma, fmt.Sprintf("step %d after STP", k+1), func() interface{} {
					return map[string]interface{}{"program_start": s0.String(), "image_seed": base.Seed, "stp_at_step": step, "pre_step_state": pre2.String()}
				}) {
					return step, "violation"
				}
				w.cells["stepped-after-stp"]++
			}
			if sawE[true] && sawE[false] {
				w.cells["program:crossed-xce"]++
			}
			return step + 1, "stp"
		}
	}
	if sawE[true] && sawE[false] {
		w.cells["program:crossed-xce"]++
	}
	return maxSteps, "max-steps"
}

func C02(r *vf.Run) {
	r.Rule = "pure differential lockstep of cpu65c816 vs cpualt, same lazily-random image and raw register file on both sides: (1) every opcode x (E,M,X,D) x boundary-directed valuations incl. stale register copies; (2) random instruction streams up to 512 steps in native and emulation mode, crossing XCE in both directions and STP, with IRQ/NMI requests raised on both sides at random steps; (3) long runs of 65,536+ consecutive steps on one instruction or tiny loop (full-bank MVN/MVP, branches and jumps to themselves, counting loops taking a register all the way round, a NOP slide wrapping PC in its bank, a push loop taking S round bank 0). After every step registers, flags, E, Stopped, Step() results, AllCycles, WDM and memory (union of written addresses) are compared. A cell is (opcode, E, M, X, D, DL!=0)"
	r.Assume = []string{"whole 16 MiB mapped on both sides", "divergence visible only in a non-authoritative register copy is counted (raw_copy_divergences), not judged, until it surfaces architecturally", "interrupt requests (TriggerIRQ, NMI) are raised identically on both sides during program lockstep"}
	ncpu := runtime.NumCPU()
	if r.Phase("single-step") {
		per := r.N(30, 6000)
		r.Parallel(ncpu, 256, func(wi, op int) {
			w := newDiffWorker(r)
			defer w.flush()
			g := r.Rand("single").Fork(uint64(op))
			for e := 0; e < 2; e++ {
				for mx := byte(0); mx < 4; mx++ {
					if e == 1 && mx != 3 {
						continue
					}
					for d := byte(0); d < 2; d++ {
						for i := 0; i < per && !r.TooMany(); i++ {
							s, img := modeState(g, byte(op), e == 1, mx, d)
							w.single(s, img, i%2 == 1, g, "single step")
							if op == 0x22 && i == 0 && mx == 3 && d == 0 {
								r.Sample(describeCase(s, false, img, ref.Info{Op: byte(op), M: ref.Table[op].M, Mode: ref.Table[op].Mode}))
							}
						}
					}
				}
			}
		})
	}
	if r.Phase("programs") {
		n := r.N(2400, 240000)
		chunks := 240
		r.Parallel(ncpu, chunks, func(wi, ci int) {
			w := newDiffWorker(r)
			defer w.flush()
			g := r.Rand("prog").Fork(uint64(ci))
			var local int64
			for i := 0; i < n/chunks && !r.TooMany(); i++ {
				var s ref.State
				if g.Intn(3) == 0 {
					s = genEmuState(g)
				} else {
					s = genState(g)
				}
				img := mem.New(g.U64())
				if g.Intn(4) != 0 {
					genProgram(g, &s, img, 40+g.Intn(120))
				}
				st, reason := w.program(s, img, g.Intn(3) == 0, g, 512)
				local += int64(st)
				w.cells["program-end:"+reason]++
				if ci == 0 && i == 0 {
					r.Sample(map[string]interface{}{"program_start": s.String(), "image_seed": img.Seed, "steps": st, "ended": reason})
				}
			}
			r.AddExtra("program_steps", local)
		})
	}
	if r.Phase("long-runs") {
		per := r.N(1, 12)
		r.Parallel(ncpu, len(longRunKinds)*per, func(wi, ci int) {
			w := newDiffWorker(r)
			defer w.flush()
			g := r.Rand("long").Fork(uint64(ci))
			kind := longRunKinds[ci%len(longRunKinds)]
			s, img, steps := longRunCase(g, kind)
			w.longRun(kind, s, img, steps, g)
		})
	}
	// the same lockstep in a fresh process in which cpualt is used (and steps) first
	runChild(r, "cpualt-first", "VERIF_ALT_FIRST=1")
	if r.OnlyPhase == "" {
		for _, k := range longRunKinds {
			r.Require("long:" + k)
		}
		r.Require("long:mvn-full:reached-stp")
		for op := 0; op < 256; op++ {
			r.Require(fmt.Sprintf("op%02x:e1:m1:x1:d0:dl0", op))
			r.Require(fmt.Sprintf("op%02x:e0:m0:x0:d1:dl1", op))
		}
		r.Require("program:crossed-xce")
		r.Require("program-end:stp")
	}
}

// topCase builds a state aimed at the top of the 24-bit address space.
func topCase(g *vf.Rng, op byte, e bool, mx byte) (ref.State, *mem.Image, string) {
	s, img := modeState(g, op, e, mx, byte(g.Intn(2)))
	mode := ref.Table[op].Mode
	k := uint32(s.K) << 16
	term := "none"
	x8 := s.P&0x10 != 0
	idx := []uint16{1, 2, 0xFF, 0x100, 0xFFFF}[g.Intn(5)]
	if x8 {
		idx &= 0xFF
		if idx == 0 {
			idx = 1
		}
	}
	setOp := func(i uint16, v byte) { img.Ov[k|uint32(s.PC+i)] = v }
	put0 := func(a uint16, v byte) { img.Ov[uint32(a)] = v }
	switch g.Intn(6) {
	case 0: // program bank $FF, PC at the very top
		delete(img.Ov, k|uint32(s.PC))
		s.K = 0xFF
		s.PC = 0xFFFC + uint16(g.Intn(4))
		k = 0xFF0000
		img.Ov[k|uint32(s.PC)] = op
		term = "pc-top"
	default:
	}
	switch mode {
	case ref.Abs, ref.AbsX, ref.AbsY:
		s.DBR = 0xFF
		setOp(1, byte(0xF0+g.Intn(16)))
		setOp(2, 0xFF)
		if mode == ref.AbsX {
			s.X = idx
			term = "index"
		} else if mode == ref.AbsY {
			s.Y = idx
			term = "index"
		} else {
			setOp(1, 0xFF)
			term = "+1"
		}
	case ref.AbsL, ref.AbsLX:
		setOp(1, byte(0xF0+g.Intn(16)))
		setOp(2, 0xFF)
		setOp(3, 0xFF)
		if mode == ref.AbsLX {
			s.X = idx
			term = "index"
		} else {
			setOp(1, 0xFF)
			term = "+1"
		}
	case ref.DpInd, ref.DpIndX, ref.DpIndY, ref.DpIndL, ref.DpIndLY, ref.SrIndY:
		s.DBR = 0xFF
		// pointer location
		var p uint16
		o1 := img.Peek(k | uint32(s.PC+1))
		switch mode {
		case ref.DpIndX:
			p = s.D + uint16(o1) + s.X
		case ref.SrIndY:
			p = s.S + uint16(o1)
		default:
			p = s.D + uint16(o1)
		}
		put0(p, byte(0xF0+g.Intn(16)))
		put0(p+1, 0xFF)
		if mode == ref.DpIndL || mode == ref.DpIndLY {
			put0(p+2, 0xFF)
		}
		if mode == ref.DpIndY || mode == ref.DpIndLY || mode == ref.SrIndY {
			s.Y = idx
			term = "index"
		} else {
			put0(p, 0xFF)
			term = "+1"
		}
	case ref.BlockMv:
		setOp(1, 0xFF)
		setOp(2, 0xFF)
		s.X, s.Y = 0xFFFF, 0xFFFF
		if x8 {
			s.X, s.Y = 0xFF, 0xFF
		}
		term = "block-top"
	}
	return s, img, term
}

func C08(r *vf.Run) {
	r.Rule = "recover() around every Step of both interpreters with the whole bus mapped, plus the maximum address seen by the memory backend: (1) top-of-address-space directed states for every opcode x (E,M,X): DBR=$FF, operands $FFF0-$FFFF, indices {1,2,$FF,$100,$FFFF}, long operands and pointers in $FFFFxx, K=$FF with PC in $FFFC-$FFFF, block moves at the top; (2) boundary-directed and uniformly random states; (3) random instruction streams in both modes. A cell is (opcode, E, M, X, overflowing term)"
	r.Assume = []string{"whole 16 MiB mapped by the monitor's memory; unmapped regions are outside the statement"}
	ncpu := runtime.NumCPU()
	judge := func(w *diffWorker, who string, res stepRes, m *mem.Image, op byte, pre ref.State, term string, detail func() interface{}) bool {
		if res.pan != nil {
			w.r.Fail(fmt.Sprintf("%s:panic:%s", who, ref.ModeNames[ref.Table[op].Mode]), fmt.Sprintf("%s %s panicked with the whole bus mapped: %v | pre={%v} term=%s", who, opName(op), res.pan, pre, term), detail())
			return false
		}
		if len(m.OOB) > 0 || m.Max > 0xFFFFFF {
			w.r.Fail(fmt.Sprintf("%s:address>=2^24:%s", who, ref.ModeNames[ref.Table[op].Mode]), fmt.Sprintf("%s %s issued bus address $%x | pre={%v} term=%s", who, opName(op), m.Max, pre, term), detail())
			return false
		}
		return true
	}
	one := func(w *diffWorker, s ref.State, img *mem.Image, term string, g *vf.Rng) {
		mp, ma := img.Clone(), img.Clone()
		w.rig.loadPrim(s, g.Bool(), g)
		w.rig.loadAltFromPrim()
		op := img.Peek(uint32(s.K)<<16 | uint32(s.PC))
		pending := false
		if g.Intn(16) == 0 { // an interrupt request pending on entry: the handler's pushes and vector fetch are bus accesses too
			pending = true
			kind := byte(2 + g.Intn(2))
			w.rig.prim.Interrupt, w.rig.alt.Interrupt = kind, kind
			w.cells["interrupt-pending"]++
		}
		rp := w.rig.stepPrim(mp)
		ra := w.rig.stepAlt(ma)
		det := func() interface{} {
			return describeCase(s, false, img, ref.Info{Op: op, M: ref.Table[op].M, Mode: ref.Table[op].Mode})
		}
		judge(w, "prim", rp, mp, op, s, term, det)
		judge(w, "alt", ra, ma, op, s, term, det)
		w.r.Eval(2)
		e := 0
		if s.E {
			e = 1
		}
		w.cells[fmt.Sprintf("op%02x:e%d:mx%d:%s", op, e, s.P>>4&3, term)]++
		if mp.Max == 0xFFFFFF || ma.Max == 0xFFFFFF {
			w.cells["touched:$ffffff"]++
		}
		// native mode: the wrapped address must be the model's (a store landing anywhere else is a violation)
		if !s.E && !pending { // (the model does not cover interrupt entry)
			mr := img.Clone()
			sr := s
			inf := ref.Step(&sr, mem.RefMem{M: mr})
			if !hazard(mr, inf, s) && rp.pan == nil && ra.pan == nil {
				if a, same := mem.SameWrites(mr, mp); !same {
					w.r.Fail("prim:wrapped-store-address:"+ref.ModeNames[inf.Mode], fmt.Sprintf("prim %s stores differ from the 24-bit-wrapped ones at $%06x: model {%s} got {%s} | pre={%v}", opName(op), a, fmtWrites(mr.Wr), fmtWrites(mp.Wr), s), det())
				}
				if a, same := mem.SameWrites(mr, ma); !same {
					w.r.Fail("alt:wrapped-store-address:"+ref.ModeNames[inf.Mode], fmt.Sprintf("alt %s stores differ from the 24-bit-wrapped ones at $%06x: model {%s} got {%s} | pre={%v}", opName(op), a, fmtWrites(mr.Wr), fmtWrites(ma.Wr), s), det())
				}
				if inf.Ev&ref.EvEA24Overflow != 0 {
					w.cells["model:ea24-overflow:"+ref.ModeNames[inf.Mode]]++
				}
				if inf.Ev&ref.EvData24Wrap != 0 {
					w.cells["model:data24-wrap:"+ref.ModeNames[inf.Mode]]++
				}
			}
		}
	}
	if r.Phase("top-directed") {
		per := r.N(100, 40000)
		r.Parallel(ncpu, 256, func(wi, op int) {
			w := newDiffWorker(r)
			defer w.flush()
			g := r.Rand("top").Fork(uint64(op))
			for e := 0; e < 2; e++ {
				for mx := byte(0); mx < 4; mx++ {
					if e == 1 && mx != 3 {
						continue
					}
					for i := 0; i < per && !r.TooMany(); i++ {
						s, img, term := topCase(g, byte(op), e == 1, mx)
						one(w, s, img, term, g)
						if op == 0xBD && i == 0 && e == 0 && mx == 0 {
							r.Sample(describeCase(s, false, img, ref.Info{Op: byte(op), M: ref.Table[op].M, Mode: ref.Table[op].Mode}))
						}
					}
				}
			}
		})
	}
	if r.Phase("random-states") {
		per := r.N(60, 20000)
		r.Parallel(ncpu, 256, func(wi, op int) {
			w := newDiffWorker(r)
			defer w.flush()
			g := r.Rand("rnd").Fork(uint64(op))
			for i := 0; i < per*5 && !r.TooMany(); i++ {
				e := i%5 == 4
				mx := byte(i % 4)
				if e {
					mx = 3
				}
				s, img := modeState(g, byte(op), e, mx, byte(g.Intn(2)))
				if i%3 == 0 {
					s.A, s.X, s.Y, s.D, s.DBR = g.U16(), g.U16(), g.U16(), g.U16(), g.U8()
					if s.P&0x10 != 0 {
						s.X &= 0xFF
						s.Y &= 0xFF
					}
				}
				one(w, s, img, "random", g)
			}
		})
	}
	if r.Phase("programs") {
		n := r.N(1200, 600000)
		chunks := 240
		r.Parallel(ncpu, chunks, func(wi, ci int) {
			w := newDiffWorker(r)
			defer w.flush()
			g := r.Rand("prog").Fork(uint64(ci))
			var local int64
			for i := 0; i < n/chunks && !r.TooMany(); i++ {
				var s ref.State
				if g.Intn(3) == 0 {
					s = genEmuState(g)
				} else {
					s = genState(g)
				}
				if g.Intn(3) == 0 {
					s.DBR = 0xFF
				}
				img := mem.New(g.U64())
				genProgram(g, &s, img, 40+g.Intn(120))
				mp, ma := img.Clone(), img.Clone()
				mp.NoRdSet, ma.NoRdSet = true, true
				w.rig.loadPrim(s, g.Intn(3) == 0, g)
				w.rig.loadAltFromPrim()
				for step := 0; step < 400; step++ {
					pre := absPrim(&w.rig.prim)
					op := mp.Peek(uint32(pre.K)<<16 | uint32(pre.PC))
					rp := w.rig.stepPrim(mp)
					ra := w.rig.stepAlt(ma)
					det := func() interface{} {
						return map[string]interface{}{"program_start": s.String(), "image_seed": img.Seed, "step": step, "pre_step_state": pre.String(), "instruction": opName(op)}
					}
					ok1 := judge(w, "prim", rp, mp, op, pre, "program", det)
					ok2 := judge(w, "alt", ra, ma, op, pre, "program", det)
					local++
					if !ok1 || !ok2 || rp.stopped {
						break
					}
				}
			}
			w.r.Eval(local * 2)
			w.cells["program-steps"] += local
		})
	}
	if r.Phase("deep-recursion") {
		// call depth is history too: routines calling themselves thousands of frames deep (JSR, JSL), and a
		// thousand nested calls unwound again by a thousand returns
		kinds := []string{"jsr-self-recursion", "jsl-self-recursion", "jsr-rts-deep-then-unwind"}
		r.Parallel(ncpu, len(kinds)*r.N(2, 16), func(wi, ci int) {
			w := newDiffWorker(r)
			defer w.flush()
			g := r.Rand("deep").Fork(uint64(ci))
			kind := kinds[ci%len(kinds)]
			s, img, steps := longRunCase(g, kind)
			w.longRun(kind, s, img, steps, g)
		})
	}
	if r.Phase("console-devices") {
		// the whole bus mapped by the library's own devices: the console as CreateEmulator wires it (RAM
		// devices and the register-window device), the holes filled with one more RAM. Every address of the
		// register window is read, written (several values, 8 and 16 bits wide) and read-modified-written
		// by both interpreters: devices are code too, and a device may not fail on a value it is handed
		type opT struct {
			name string
			code byte
		}
		ops := []opT{{"lda", 0xAD}, {"sta", 0x8D}, {"stz", 0x9C}, {"stx", 0x8E}, {"sty", 0x8C}, {"inc", 0xEE}, {"dec", 0xCE}, {"tsb", 0x0C}, {"asl", 0x0E}, {"bit", 0x2C}}
		banks := []byte{0x00, 0x3F, 0x80, 0x6F}
		r.Parallel(min(ncpu, 8), len(banks)*2, func(wi, idx int) {
			bank, useAlt := banks[idx/2], idx%2 == 1
			g := r.Rand("console").Fork(uint64(idx))
			sys := new(emulator.System)
			if err := sys.CreateEmulator(); err != nil {
				r.Fail("create-emulator", err.Error(), nil)
				return
			}
			filler := make([]byte, 1<<24)
			holeStart := int64(-1)
			for blk := int64(0); blk <= 1<<20; blk++ {
				served := false
				if blk < 1<<20 {
					served = vf.Try(func() { sys.Bus.EaRead(uint32(blk) << 4) }) == nil
				}
				if !served && holeStart < 0 && blk < 1<<20 {
					holeStart = blk
				}
				if (served || blk == 1<<20) && holeStart >= 0 {
					if err := sys.Bus.Attach(memory.NewRAM(filler, 0), "fill", uint32(holeStart)<<4, uint32(blk)<<4-1); err != nil {
						panic(err)
					}
					holeStart = -1
				}
			}
			var alt *cpualt.CPU
			if useAlt {
				// the other interpreter over the same devices
				alt = new(cpualt.CPU)
				alt.Init()
				alt.Bus.AttachReader(0, 0xFFFFFF, func(a uint32) uint8 { return sys.Bus.EaRead(a) })
				alt.Bus.AttachWriter(0, 0xFFFFFF, func(a uint32, v uint8) { sys.Bus.EaWrite(a, v) })
			}
			var n int64
			for off := uint32(0x2000); off < 0x8000 && !r.TooMany(); off++ {
				for _, op := range ops {
					for _, val := range []uint16{0x0000, 0x0001, 0x8000, 0x00FF, 0xFFFF} {
						for m8 := 0; m8 < 2; m8++ {
							// program in work RAM: <op> $off with the data bank pointing at the window
							pc := uint32(0x7E1000)
							sys.Bus.EaWrite(pc, op.code)
							sys.Bus.EaWrite(pc+1, byte(off))
							sys.Bus.EaWrite(pc+2, byte(off>>8))
							var pan interface{}
							if useAlt {
								c := alt
								c.RK, c.PC, c.RDBR = 0x7E, 0x1000, bank
								c.E, c.M, c.X = 0, byte(m8), byte(m8)
								c.RA, c.RAl, c.RAh = val, byte(val), byte(val>>8)
								c.RX, c.RXl, c.RY, c.RYl = val, byte(val), val, byte(val)
								c.Stopped = false
								pan = vf.Try(func() { c.Step() })
							} else {
								c := &sys.CPU
								c.RK, c.PC, c.RDBR = 0x7E, 0x1000, bank
								c.E, c.M, c.X = 0, byte(m8), byte(m8)
								c.RA, c.RAl, c.RAh = val, byte(val), byte(val>>8)
								c.RX, c.RXl, c.RY, c.RYl = val, byte(val), val, byte(val)
								c.Stopped = false
								pan = vf.Try(func() { c.Step() })
							}
							n++
							if pan != nil {
								who := "cpu65c816"
								if useAlt {
									who = "cpualt"
								}
								r.Fail(fmt.Sprintf("console-device-fails:%s:%s", who, op.name), fmt.Sprintf("%s: %s $%02x:%04x (register window) with A/X/Y=$%04x, %d-bit: Step failed with the whole bus mapped by the library's devices: %v", who, op.name, bank, off, val, 16-8*m8, pan), nil)
							}
						}
					}
				}
			}
			_ = g
			r.Eval(n)
			r.CellN(fmt.Sprintf("console-devices:bank%02x:alt=%v", bank, useAlt), n)
		})
	}
	if r.Phase("re-entrant-devices") {
		// devices that go back through the bus they are attached to while serving an access (a data port
		// that forwards to work RAM through an auto-incrementing pointer, a mirror that forwards to the
		// mirrored range): the instruction still completes. A stall supervisor looks at the goroutine stacks
		// if nothing completes for a minute (the verdict comes from the stacks, not from the clock).
		superviseStalls(r)
		sys := new(emulator.System)
		if err := sys.CreateEmulator(); err != nil {
			r.Fail("create-emulator", err.Error(), nil)
		} else {
			port := &forwardingPort{b: &sys.Bus}
			if err := sys.Bus.Attach(port, "wram-port", 0x002180, 0x00218F); err != nil {
				panic(err)
			}
			mirror := &forwardingMirror{b: &sys.Bus, to: 0x7E4000}
			if err := sys.Bus.Attach(mirror, "mirror", 0x003000, 0x003FFF); err != nil {
				panic(err)
			}
			var n int64
			for _, at := range []uint32{0x2180, 0x2181, 0x218F, 0x3000, 0x3FFE, 0x3FFF} {
				for _, op := range []byte{0xAD, 0x8D, 0xEE, 0x0E, 0x9C, 0x2C} {
					for m8 := 0; m8 < 2; m8++ {
						pc := uint32(0x7E1000)
						sys.Bus.EaWrite(pc, op)
						sys.Bus.EaWrite(pc+1, byte(at))
						sys.Bus.EaWrite(pc+2, byte(at>>8))
						c := &sys.CPU
						c.RK, c.PC, c.RDBR = 0x7E, 0x1000, 0x00
						c.E, c.M, c.X = 0, byte(m8), byte(m8)
						c.RA, c.RAl, c.RAh = 0x1234, 0x34, 0x12
						c.Stopped = false
						if pan := vf.Try(func() { c.Step() }); pan != nil {
							r.Fail("re-entrant-device-fails", fmt.Sprintf("opcode %02x on $00:%04x (a device that forwards through the bus), %d-bit: Step failed: %v", op, at, 16-8*m8, pan), nil)
						}
						c18progress.Add(1)
						n++
					}
				}
			}
			r.Eval(n)
			r.CellN("re-entrant-devices", n)
		}
	}
	if r.OnlyPhase == "" {
		r.Require("re-entrant-devices")
		r.Require("long:jsr-self-recursion")
		r.Require("long:jsr-rts-deep-then-unwind")
		r.RequireSub("console-devices:bank00:alt=false")
		r.RequireSub("console-devices:bank00:alt=true")
		for _, c := range []string{"model:ea24-overflow:abs,X", "model:ea24-overflow:abs,Y", "model:ea24-overflow:long,X", "model:ea24-overflow:(dp),Y", "model:ea24-overflow:[dp],Y",
			"model:ea24-overflow:(sr,S),Y", "model:data24-wrap:abs", "model:data24-wrap:long", "model:data24-wrap:(dp)", "model:data24-wrap:[dp]", "touched:$ffffff"} {
			r.Require(c)
		}
		r.RequireSub(":pc-top")
		r.RequireSub("e1:mx3:index")
	}
}
