package props

import (
	"io"
	"reflect"

	"verif/internal/vf"
)

// callNonResetMethods calls every exported method of obj (found by reflection, so methods added later
// are included) except those that are a reset or an execution - names in skip - with harmless
// arguments. "Until the CPU is reset" leaves no room for any other call to release a stopped CPU.
// Returns the names called.
func callNonResetMethods(obj interface{}, skip map[string]bool, g *vf.Rng) []string {
	v := reflect.ValueOf(obj)
	t := v.Type()
	var called []string
	for i := 0; i < t.NumMethod(); i++ {
		name := t.Method(i).Name
		if skip[name] || g.Intn(3) == 0 {
			continue
		}
		m := v.Method(i)
		mt := m.Type()
		args := make([]reflect.Value, 0, mt.NumIn())
		ok := true
		for k := 0; k < mt.NumIn(); k++ {
			in := mt.In(k)
			switch {
			case in.Kind() == reflect.Uint8:
				args = append(args, reflect.ValueOf(g.U8()).Convert(in))
			case in.Kind() == reflect.Uint16:
				args = append(args, reflect.ValueOf(g.U16()).Convert(in))
			case in.Kind() == reflect.Uint32:
				args = append(args, reflect.ValueOf(g.U32()&0xFFFFFF).Convert(in))
			case in.Kind() == reflect.Uint64 || in.Kind() == reflect.Int:
				args = append(args, reflect.ValueOf(g.Intn(8)).Convert(in))
			case in.Kind() == reflect.Bool:
				args = append(args, reflect.ValueOf(g.Bool()))
			case in.Kind() == reflect.Slice && in.Elem().Kind() == reflect.Uint8:
				args = append(args, reflect.Zero(in))
			case in.Kind() == reflect.Interface && reflect.TypeOf((*io.Writer)(nil)).Elem().Implements(in):
				args = append(args, reflect.ValueOf(io.Discard))
			default:
				ok = false
			}
		}
		if !ok {
			continue
		}
		vf.Try(func() { m.Call(args) })
		called = append(called, name)
	}
	return called
}
