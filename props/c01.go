package props

import (
	"fmt"
	"runtime"
	"strings"
	"sync"

	"github.com/alttpo/snes/asm"

	"verif/internal/mem"
	"verif/internal/ref"
	"verif/internal/vf"
)

func init() { reg("C01", C01) }

// aimCase builds a native-mode state + image for one opcode, directed at the
// wrap rules of its addressing mode.
func aimCase(r *vf.Rng, op byte, mx byte) (ref.State, *mem.Image) {
	s := genState(r)
	s.P = s.P&^0x30 | mx<<4
	if s.P&0x10 != 0 {
		s.X &= 0xFF
		s.Y &= 0xFF
	}
	if r.Intn(8) != 0 {
		s.P &^= 0x08 // decimal mostly off; ADC/SBC decimal gets its own sweep
	}
	img := mem.New(r.U64())
	mode := ref.Table[op].Mode
	if r.Intn(4) == 0 {
		s.PC = 0xFFFC + uint16(r.Intn(4))
	}
	k := uint32(s.K) << 16
	pca := func(o uint16) uint32 { return k | uint32(s.PC+o) }
	var o [3]byte
	for i := range o {
		if r.Intn(2) == 0 {
			o[i] = edge8(r)
		} else {
			o[i] = r.U8()
		}
	}
	x8 := s.P&0x10 != 0
	idxMax := 0x10000
	if x8 {
		idxMax = 0x100
	}
	setIdx := func(reg *uint16, v int) {
		for v < 0 {
			v += 0x10000
		}
		*reg = uint16(v % idxMax)
	}
	put16 := func(a uint16, v uint16) { // bank 0, wrapping
		img.Ov[uint32(a)] = byte(v)
		img.Ov[uint32(a+1)] = byte(v >> 8)
	}
	idxOf := func() *uint16 {
		switch mode {
		case ref.DpX, ref.DpIndX, ref.AbsX, ref.AbsLX, ref.AbsIndX:
			return &s.X
		case ref.DpY, ref.DpIndY, ref.DpIndLY, ref.AbsY, ref.SrIndY:
			return &s.Y
		}
		return nil
	}
	switch mode {
	case ref.Dp, ref.DpX, ref.DpY, ref.DpInd, ref.DpIndX, ref.DpIndY, ref.DpIndL, ref.DpIndLY:
		pre := uint16(0) // index added before the pointer fetch / to the dp address
		if mode == ref.DpX || mode == ref.DpIndX {
			pre = s.X
		} else if mode == ref.DpY {
			pre = s.Y
		}
		if r.Intn(3) == 0 {
			target := uint16(0xFFFD + r.Intn(5))
			s.D = target - uint16(o[0]) - pre
		}
		p := s.D + uint16(o[0]) + pre
		switch mode {
		case ref.DpInd, ref.DpIndX:
			put16(p, edge16(r))
		case ref.DpIndY:
			v := edge16(r)
			if r.Intn(2) == 0 { // pointer + Y crosses the bank
				v = uint16(0x10000 - int(s.Y) + r.Intn(3) - 1)
			}
			put16(p, v)
		case ref.DpIndL, ref.DpIndLY:
			v := edge16(r)
			if mode == ref.DpIndLY && r.Intn(2) == 0 {
				v = uint16(0x10000 - int(s.Y) + r.Intn(3) - 1)
			}
			put16(p, v)
			b := edge8(r)
			if r.Intn(3) == 0 {
				b = 0xFF
			}
			img.Ov[uint32(p+2)] = b
		}
		if r.Intn(3) == 0 {
			s.DBR = 0xFF
		}
	case ref.Abs, ref.AbsX, ref.AbsY:
		if r.Intn(3) == 0 {
			s.DBR = 0xFF
		}
		if reg := idxOf(); reg != nil && r.Intn(2) == 0 {
			o16 := int(o[0]) | int(o[1])<<8
			setIdx(reg, 0x10000-o16+r.Intn(3)-1)
			if x8 && r.Intn(2) == 0 { // make the crossing reachable with an 8-bit index
				o[1] = 0xFF
				o[0] = byte(0x100 - int(*reg) + r.Intn(3) - 1)
			}
		}
	case ref.AbsL, ref.AbsLX:
		if r.Intn(3) == 0 {
			o[2] = 0xFF
		}
		if r.Intn(2) == 0 {
			o16 := int(o[0]) | int(o[1])<<8
			setIdx(&s.X, 0x10000-o16+r.Intn(3)-1)
			if x8 && r.Intn(2) == 0 {
				o[1] = 0xFF
				o[0] = byte(0x100 - int(s.X) + r.Intn(3) - 1)
			}
		}
	case ref.Sr, ref.SrIndY:
		if r.Intn(3) == 0 {
			s.S = uint16(0x10000 - int(o[0]) + r.Intn(3) - 1)
		}
		if mode == ref.SrIndY {
			v := edge16(r)
			if r.Intn(2) == 0 {
				v = uint16(0x10000 - int(s.Y) + r.Intn(3) - 1)
			}
			put16(s.S+uint16(o[0]), v)
			if r.Intn(3) == 0 {
				s.DBR = 0xFF
			}
		}
	case ref.AbsInd, ref.AbsIndL:
		if r.Intn(2) == 0 {
			o[0], o[1] = byte(0xFD+r.Intn(3)), 0xFF
		}
	case ref.AbsIndX:
		if r.Intn(2) == 0 {
			o16 := int(o[0]) | int(o[1])<<8
			setIdx(&s.X, 0xFFFF-o16+r.Intn(3)-1)
			if x8 && r.Intn(2) == 0 {
				o[1] = 0xFF
				o[0] = byte(0xFF - int(s.X))
			}
		}
	case ref.Imp:
		if r.Intn(2) == 0 {
			s.S = []uint16{0x0000, 0x0001, 0x0002, 0x01FF, 0xFFFF, 0xFFFE, 0xFFFD}[r.Intn(7)]
		}
	case ref.BlockMv:
		if r.Intn(2) == 0 {
			s.A = []uint16{0, 1, 0xFFFF, 0x0100, 0x00FF}[r.Intn(5)]
		}
		if r.Intn(3) == 0 {
			o[1] = o[0] // same banks
		}
	case ref.Rel16, ref.Imm16:
		if r.Intn(3) == 0 {
			s.S = []uint16{0x0000, 0x0001, 0xFFFF}[r.Intn(3)]
		}
	}
	// interrupts / JSL / JSR push: exercise the stack edges too
	switch ref.MnemNames[ref.Table[op].M] {
	case "brk", "cop", "jsl", "jsr", "pea", "pei", "per", "rti", "rtl", "rts":
		if r.Intn(3) == 0 {
			s.S = []uint16{0x0000, 0x0001, 0x0002, 0xFFFF, 0xFFFE, 0xFFFD, 0x01FF}[r.Intn(7)]
		}
	}
	img.Ov[pca(0)] = op
	img.Ov[pca(1)] = o[0]
	img.Ov[pca(2)] = o[1]
	img.Ov[pca(3)] = o[2]
	if r.Intn(2) == 0 {
		edgeData(r, s, img)
	}
	return s, img
}

// edgeData overlays the data bytes the instruction will read (as located by
// the model) with boundary values, so that results like $FFFF+1, $8000<<1 or
// an all-zero operand occur far more often than in a uniformly random image.
func edgeData(r *vf.Rng, s ref.State, img *mem.Image) {
	probe := img.Clone()
	probe.KeepLog = true
	st := s
	ref.Step(&st, mem.RefMem{M: probe})
	k := uint32(s.K) << 16
	both := []byte{0x00, 0xFF, 0x7F, 0x80, 0x01, 0xFE}[r.Intn(6)]
	same := r.Intn(2) == 0
	for _, a := range probe.Log {
		if a.Write {
			continue
		}
		if _, set := img.Ov[a.Addr]; set {
			continue // code, operand or pointer bytes chosen above
		}
		if a.Addr&0xFF0000 == k && uint16(a.Addr)-s.PC < 4 {
			continue
		}
		if same {
			img.Ov[a.Addr] = both
		} else {
			img.Ov[a.Addr] = edge8(r)
		}
	}
}

type c01worker struct {
	r      *vf.Run
	rig    *cpuRig
	cells  map[string]int64
	evSeen map[uint16]uint32 // (op<<2|mx) -> events already covered
	extra  map[string]int64
}

var rigPool sync.Pool

func newC01Worker(r *vf.Run) *c01worker {
	rig, _ := rigPool.Get().(*cpuRig)
	if rig == nil {
		rig = newRig()
	}
	return &c01worker{r: r, rig: rig, cells: map[string]int64{}, evSeen: map[uint16]uint32{}, extra: map[string]int64{}}
}

func (w *c01worker) flush() {
	w.r.MergeCells(w.cells)
	for k, v := range w.extra {
		w.r.AddExtra(k, v)
	}
	w.cells, w.extra = map[string]int64{}, map[string]int64{}
	if w.rig != nil {
		rigPool.Put(w.rig)
		w.rig = nil
	}
}

// decimalMask reduces a state difference to what the programming model defines
// for a decimal ADC/SBC: A,C,Z,N for valid BCD operands (V never), nothing of
// A/N/V/Z/C otherwise.
func decimalMask(d []string, inf ref.Info) []string {
	if !inf.Decimal {
		return d
	}
	var out []string
	for _, x := range d {
		switch {
		case x == "A":
			if inf.DecimalBCD {
				out = append(out, x)
			}
		case strings.HasPrefix(x, "P^"):
			var bits byte
			fmt.Sscanf(x, "P^%02x", &bits)
			if inf.DecimalBCD {
				bits &^= 0x40
			} else {
				bits &^= 0xC3
			}
			if bits != 0 {
				out = append(out, fmt.Sprintf("P^%02x", bits))
			}
		default:
			out = append(out, x)
		}
	}
	return out
}

// judge compares one implementation's outcome with the model's.
func (w *c01worker) judge(who string, want ref.State, mr *mem.Image, got ref.State, m *mem.Image, res stepRes, inf ref.Info, s0 ref.State, stale bool, base *mem.Image, phase string) bool {
	name := ref.MnemNames[inf.M] + " " + ref.ModeNames[inf.Mode]
	detail := func() interface{} { return describeCase(s0, stale, base, inf) }
	dec := ""
	if inf.Decimal {
		dec = ":decimal"
	}
	if res.pan != nil {
		w.r.Fail(fmt.Sprintf("%s:%s:PANIC", who, ref.ModeNames[inf.Mode]), fmt.Sprintf("%s %s panicked: %v | s0={%v} events=%v", who, name, res.pan, s0, evNames(inf.Ev)), detail())
		return false
	}
	ok := true
	if len(m.OOB) > 0 {
		w.r.Fail(fmt.Sprintf("%s:%s:OOB", who, ref.ModeNames[inf.Mode]), fmt.Sprintf("%s %s issued bus address $%x >= 2^24 | s0={%v}", who, name, m.OOB[0], s0), detail())
		ok = false
	}
	d := decimalMask(diffState(want, got), inf)
	if len(d) > 0 {
		fields := make([]string, len(d))
		for i, x := range d {
			fields[i] = x
			if strings.HasPrefix(x, "P^") {
				fields[i] = "P"
			}
		}
		w.r.Fail(fmt.Sprintf("%s:%s:%s%s", who, name, strings.Join(fields, "+"), dec),
			fmt.Sprintf("%s %s: %v differ: model={%v} got={%v} | s0={%v} stale=%v events=%v", who, name, d, want, got, s0, stale, evNames(inf.Ev)), detail())
		ok = false
	}
	if a, same := mem.SameWrites(mr, m); !same {
		w.r.Fail(fmt.Sprintf("%s:%s:MEM", who, name), fmt.Sprintf("%s %s: memory differs at $%06x: model writes {%s} got {%s} | s0={%v} events=%v", who, name, a, fmtWrites(mr.Wr), fmtWrites(m.Wr), s0, evNames(inf.Ev)), detail())
		ok = false
	}
	if res.cycles < 1 {
		w.r.Fail(who+":cycles<1", fmt.Sprintf("%s %s reported %d cycles", who, name, res.cycles), detail())
		ok = false
	}
	_ = phase
	return ok
}

// single compares one step of both interpreters with the model. Returns the
// model info and whether the case was judged (false: abstained).
func (w *c01worker) single(s0 ref.State, base *mem.Image, stale bool, g *vf.Rng, phase string) (ref.Info, bool, bool) {
	mr := base.Clone()
	sr := s0
	// one case in twelve: an interrupt request is latched when the step begins (the boundary-directed
	// states put the stack pointer, among others, on its edges)
	irq := s0.P&0x04 == 0 && g.Intn(12) == 0
	if irq {
		ref.EnterIRQ(&sr, mem.RefMem{M: mr})
	}
	entered := sr
	inf := ref.Step(&sr, mem.RefMem{M: mr})
	if hazard(mr, inf, entered) {
		w.extra["skipped_hazard"]++
		return inf, false, true
	}
	mp := base.Clone()
	w.rig.loadPrim(s0, stale, g)
	w.rig.loadAltFromPrim()
	if irq {
		w.rig.prim.TriggerIRQ()
		w.rig.alt.TriggerIRQ()
		w.cells["interrupt:irq-latched-at-single-step"]++
	}
	rp := w.rig.stepPrim(mp)
	ma := base.Clone()
	ra := w.rig.stepAlt(ma)
	ok1 := w.judge("prim", sr, mr, absPrim(&w.rig.prim), mp, rp, inf, s0, stale, base, phase)
	ok2 := w.judge("alt", sr, mr, absAlt(w.rig.alt), ma, ra, inf, s0, stale, base, phase)
	w.r.Eval(2)
	mx := s0.P >> 4 & 3
	w.cells[fmt.Sprintf("op%02x:mx%d", inf.Op, mx)]++
	for i := 0; i < ref.NEvents; i++ {
		if inf.Ev&(1<<uint(i)) != 0 {
			w.cells["ev:"+ref.ModeNames[inf.Mode]+":"+ref.EvNames[i]]++
		}
	}
	if inf.Decimal && !inf.DecimalBCD {
		w.extra["decimal_invalid_bcd_partially_judged"]++
	}
	return inf, true, ok1 && ok2
}

// pickCase generates a few candidates and prefers one whose model events are new for this opcode cell.
func (w *c01worker) pickCase(g *vf.Rng, op byte, mx byte) (ref.State, *mem.Image) {
	key := uint16(op)<<2 | uint16(mx)
	var bs ref.State
	var bi *mem.Image
	for c := 0; c < 4; c++ {
		s, img := aimCase(g, op, mx)
		if c == 0 {
			bs, bi = s, img
		}
		st := s
		inf := ref.Step(&st, mem.RefMem{M: img.Clone()})
		if inf.Ev&^w.evSeen[key] != 0 {
			w.evSeen[key] |= inf.Ev
			return s, img
		}
	}
	return bs, bi
}

// runProgram runs the model and both interpreters in lockstep on one image for up to maxSteps.
func (w *c01worker) runProgram(s0 ref.State, base *mem.Image, stale bool, g *vf.Rng, maxSteps int, tag string) (steps int, endReason string) {
	mr, mp, ma := base.Clone(), base.Clone(), base.Clone()
	sr := s0
	if !s0.E && g.Intn(5) == 0 {
		w.rig.excursion(g, s0, stale)
		w.cells["history:excursion-through-emulation-mode"]++
	} else {
		w.rig.loadPrim(s0, stale, g)
		w.rig.loadAltFromPrim()
	}
	if g.Bool() {
		w.rig.observeFromHooks()
	}
	for steps = 0; steps < maxSteps; steps++ {
		pre := sr
		mr.ResetStep()
		mp.ResetStep()
		ma.ResetStep()
		// an interrupt request arriving between two instructions: the interpreters enter the handler and
		// execute its first instruction in the same Step
		irq := sr.P&0x04 == 0 && g.Intn(48) == 0
		if irq {
			ref.EnterIRQ(&sr, mem.RefMem{M: mr})
			w.rig.prim.TriggerIRQ()
			w.rig.alt.TriggerIRQ()
			w.cells["interrupt:irq-between-instructions"]++
		}
		entered := sr // (the state in which the executed instruction is fetched)
		inf := ref.Step(&sr, mem.RefMem{M: mr})
		if hazard(mr, inf, entered) {
			w.extra["skipped_hazard"]++
			return steps, "hazard"
		}
		rp := w.rig.stepPrim(mp)
		ra := w.rig.stepAlt(ma)
		ctx := func() interface{} {
			return map[string]interface{}{"program_start": s0.String(), "image_seed": base.Seed, "step": steps, "pre_step_state": pre.String(), "irq_taken_first": irq,
				"instruction": fmt.Sprintf("%02x %s %s", inf.Op, ref.MnemNames[inf.M], ref.ModeNames[inf.Mode]), "overlay_bytes": len(base.Ov)}
		}
		name := ref.MnemNames[inf.M] + " " + ref.ModeNames[inf.Mode]
		dec := ""
		if inf.Decimal {
			dec = ":decimal"
		}
		for _, side := range []struct {
			who string
			st  ref.State
			m   *mem.Image
			res stepRes
		}{{"prim", absPrim(&w.rig.prim), mp, rp}, {"alt", absAlt(w.rig.alt), ma, ra}} {
			if side.res.pan != nil {
				w.r.Fail(fmt.Sprintf("%s:%s:PANIC", side.who, ref.ModeNames[inf.Mode]), fmt.Sprintf("%s program step %d %s panicked: %v | pre={%v}", tag, steps, name, side.res.pan, pre), ctx())
				return steps, "violation"
			}
			if len(side.m.OOB) > 0 {
				w.r.Fail(fmt.Sprintf("%s:%s:OOB", side.who, ref.ModeNames[inf.Mode]), fmt.Sprintf("%s program step %d %s: bus address $%x", tag, steps, name, side.m.OOB[0]), ctx())
				return steps, "violation"
			}
			d := decimalMask(diffState(sr, side.st), inf)
			if len(d) > 0 {
				fields := make([]string, len(d))
				for i, x := range d {
					fields[i] = x
					if strings.HasPrefix(x, "P^") {
						fields[i] = "P"
					}
				}
				w.r.Fail(fmt.Sprintf("%s:%s:%s%s", side.who, name, strings.Join(fields, "+"), dec),
					fmt.Sprintf("%s program step %d: %s %s: %v differ: model={%v} got={%v} | pre={%v} events=%v", tag, steps, side.who, name, d, sr, side.st, pre, evNames(inf.Ev)), ctx())
				return steps, "violation"
			}
			if a, same := mem.SameWrites(mr, side.m); !same {
				w.r.Fail(fmt.Sprintf("%s:%s:MEM", side.who, name), fmt.Sprintf("%s program step %d: %s %s: memory differs at $%06x | pre={%v}", tag, steps, side.who, name, a, pre), ctx())
				return steps, "violation"
			}
		}
		w.r.Eval(2)
		mx := pre.P >> 4 & 3
		w.cells[fmt.Sprintf("op%02x:mx%d", inf.Op, mx)]++
		for i := 0; i < ref.NEvents; i++ {
			if inf.Ev&(1<<uint(i)) != 0 {
				w.cells["ev:"+ref.ModeNames[inf.Mode]+":"+ref.EvNames[i]]++
			}
		}
		if inf.Decimal && !inf.DecimalBCD {
			// A and the arithmetic flags are undefined from here on: end the run
			return steps + 1, "decimal-undefined"
		}
		if inf.Decimal {
			// V is undefined after a decimal operation: resynchronise it so later steps are judged
			v := sr.P & 0x40
			w.rig.prim.V = v >> 6
			w.rig.alt.V = v >> 6
		}
		if inf.LeftNative {
			return steps + 1, "xce-to-emulation"
		}
		if sr.Stopped {
			return steps + 1, "stp"
		}
	}
	return steps, "max-steps"
}

// genProgram overlays a weighted random instruction stream at K:PC.
func genProgram(g *vf.Rng, s *ref.State, img *mem.Image, n int) {
	boosted := []byte{0xC2, 0xE2, 0x28, 0x40, 0xFB, 0x08, 0x48, 0x68, 0xDA, 0xFA, 0x5A, 0x7A, 0x0B, 0x2B, 0x8B, 0xAB, 0x4B,
		0xAA, 0xA8, 0x8A, 0x98, 0x9A, 0xBA, 0x9B, 0xBB, 0x1B, 0x3B, 0x5B, 0x7B, 0xEB, 0x54, 0x44, 0x18, 0x38, 0xD8, 0xF8,
		0xA9, 0xA2, 0xA0, 0x69, 0xE9, 0xC9, 0xE0, 0xC0, 0xE8, 0xC8, 0xCA, 0x88, 0x1A, 0x3A, 0xF4, 0x62, 0xD4, 0x42}
	a := uint32(s.K)<<16 | uint32(s.PC)
	for i := 0; i < n; {
		var op byte
		switch g.Intn(5) {
		case 0, 1:
			op = boosted[g.Intn(len(boosted))]
		default:
			op = g.U8()
		}
		// keep control transfers rarer so the stream is actually executed
		switch ref.MnemNames[ref.Table[op].M] {
		case "jmp", "jml", "jsr", "jsl", "rts", "rtl", "brk", "cop", "stp", "brl":
			if g.Intn(4) != 0 {
				continue
			}
		}
		img.Ov[(a&0xFF0000)|((a+uint32(i))&0xFFFF)] = op
		i++
		// operand bytes: leave most random, sometimes small values so branches stay local
		for k := 0; k < 3 && g.Intn(2) == 0; k++ {
			img.Ov[(a&0xFF0000)|((a+uint32(i))&0xFFFF)] = []byte{0, 1, 2, 0x10, 0x20, 0x30, 0xFE, 0xFF}[g.Intn(8)]
			i++
		}
	}
}

func C01(r *vf.Run) {
	r.Rule = "three layers, all seeded: (1) every opcode x (M,X) x stale-copy flag x boundary-directed valuations (coverage-guided choice among candidates using the model's wrap events); (2) random instruction streams run in lockstep for up to 256 steps, and long runs of 65,536+ consecutive steps on one instruction or tiny loop (full-bank block moves, branches to themselves, counting loops, PC and S wrapping all the way round); (3) exhaustive 8-bit ADC/SBC/CMP operand x accumulator x carry in binary and decimal; (4) programs assembled with the library's own Emitter (labels, branches, data, width switches) run in lockstep. Both interpreters are compared with the independent model after every step on A,X,Y,S,D,DBR,K,PC,P,E and on final memory over the union of written addresses. A cell is (opcode, M, X) or (addressing mode, wrap event)"
	r.Assume = []string{
		"the reference model in /verif/internal/ref is the WDC programming model (written from the data sheet; shares no code with /repo)",
		"abstentions: A/N/V/Z/C after decimal ADC/SBC with invalid BCD operands, V after any decimal operation, steps whose reads and writes alias other than the operand RMW (bus micro-order)",
	}
	ncpu := runtime.NumCPU()

	if r.Phase("single-step") {
		per := r.N(75, 20000) // per opcode x MX x stale
		r.Parallel(ncpu, 256, func(wi, op int) {
			w := newC01Worker(r)
			g := r.Rand("single").Fork(uint64(op))
			for mx := byte(0); mx < 4; mx++ {
				for stale := 0; stale < 2; stale++ {
					for i := 0; i < per && !r.TooMany(); i++ {
						s, img := w.pickCase(g, byte(op), mx)
						inf, judged, _ := w.single(s, img, stale == 1, g, "single-step")
						if op == 0xB1 && mx == 0 && stale == 0 && i == 0 && judged {
							r.Sample(describeCase(s, false, img, inf))
						}
					}
				}
			}
			w.flush()
		})
	}
	if r.Phase("long-runs") {
		per := r.N(1, 8)
		r.Parallel(ncpu, len(longRunKinds)*per, func(wi, ci int) {
			w := newC01Worker(r)
			g := r.Rand("long").Fork(uint64(ci))
			kind := longRunKinds[ci%len(longRunKinds)]
			s, img, steps := longRunCase(g, kind)
			w.longRun(kind, s, img, steps, g)
			w.flush()
		})
	}
	if r.Phase("random-valuations") {
		per := r.N(40, 2000)
		r.Parallel(ncpu, 256, func(wi, op int) {
			w := newC01Worker(r)
			g := r.Rand("uniform").Fork(uint64(op))
			for i := 0; i < per*4 && !r.TooMany(); i++ {
				s := genState(g)
				if i%2 == 0 { // uniformly random registers
					s.A, s.X, s.Y, s.S, s.D, s.PC, s.DBR, s.K = g.U16(), g.U16(), g.U16(), g.U16(), g.U16(), g.U16(), g.U8(), g.U8()
					if s.P&0x10 != 0 {
						s.X &= 0xFF
						s.Y &= 0xFF
					}
				}
				img := mem.New(g.U64())
				img.Ov[uint32(s.K)<<16|uint32(s.PC)] = byte(op)
				w.single(s, img, g.Bool(), g, "random-valuations")
			}
			w.flush()
		})
	}
	if r.Phase("alu-exhaustive") {
		// ADC / SBC / CMP immediate: every 8-bit accumulator x operand x carry, binary and decimal
		ops := []byte{0x69, 0xE9, 0xC9}
		r.Parallel(ncpu, len(ops)*2*256, func(wi, idx int) {
			w := newC01Worker(r)
			g := r.Rand("alu").Fork(uint64(idx))
			op := ops[idx/512]
			dflag := byte(idx / 256 % 2)
			a := uint16(idx % 256)
			for d := 0; d < 256; d++ {
				for c := byte(0); c < 2; c++ {
					var s ref.State
					s.A = uint16(g.U8())<<8 | a
					s.P = 0x30 | dflag<<3 | c | g.U8()&0xC2
					s.PC, s.K, s.S = 0x8000, 0x12, 0x1FF
					img := mem.New(1)
					img.Ov[0x128000] = op
					img.Ov[0x128001] = byte(d)
					w.single(s, img, false, g, "alu-exhaustive")
				}
			}
			w.cells[fmt.Sprintf("alu8:op%02x:d%d", op, dflag)] += 512
			w.flush()
		})
		// 16-bit pairs, sampled
		n16 := r.N(1<<14, 1<<20)
		r.Parallel(ncpu, 64, func(wi, idx int) {
			w := newC01Worker(r)
			g := r.Rand("alu16").Fork(uint64(idx))
			for i := 0; i < n16/64; i++ {
				op := ops[g.Intn(3)]
				var s ref.State
				s.A = edge16(g)
				s.P = g.U8() &^ 0x20
				if g.Intn(2) == 0 {
					s.P &^= 0x08
				}
				if s.P&0x08 != 0 && g.Intn(4) != 0 { // valid BCD operands mostly
					s.A = uint16(g.Intn(10)) | uint16(g.Intn(10))<<4 | uint16(g.Intn(10))<<8 | uint16(g.Intn(10))<<12
				}
				s.PC, s.K, s.S = 0x8000, 0x12, 0x1FF
				if s.P&0x10 != 0 {
					s.X, s.Y = 0, 0
				}
				img := mem.New(1)
				img.Ov[0x128000] = op
				d := edge16(g)
				if s.P&0x08 != 0 && g.Intn(4) != 0 {
					d = uint16(g.Intn(10)) | uint16(g.Intn(10))<<4 | uint16(g.Intn(10))<<8 | uint16(g.Intn(10))<<12
				}
				img.Ov[0x128001], img.Ov[0x128002] = byte(d), byte(d>>8)
				w.single(s, img, false, g, "alu-exhaustive")
			}
			w.cells["alu16:sampled"] += int64(n16 / 64)
			w.flush()
		})
	}
	if r.Phase("programs") {
		n := r.N(2400, 1200000)
		chunks := 240
		var steps int64
		r.Parallel(ncpu, chunks, func(wi, ci int) {
			w := newC01Worker(r)
			g := r.Rand("prog").Fork(uint64(ci))
			local := int64(0)
			for i := 0; i < n/chunks && !r.TooMany(); i++ {
				s := genState(g)
				if g.Intn(2) == 0 {
					s.P &^= 0x08
				}
				img := mem.New(g.U64())
				if g.Intn(4) != 0 {
					genProgram(g, &s, img, 40+g.Intn(80))
				}
				st, reason := w.runProgram(s, img, g.Intn(3) == 0, g, 256, "random")
				local += int64(st)
				w.cells["program-end:"+reason]++
				if ci == 0 && i == 0 {
					r.Sample(map[string]interface{}{"program_start": s.String(), "image_seed": img.Seed, "overlay_bytes": len(img.Ov), "steps": st, "ended": reason})
				}
			}
			r.AddExtra("program_steps", local)
			w.flush()
		})
		_ = steps
	}
	if r.Phase("assembled") {
		// programs assembled with the library's own Emitter (labels, branches, loops, data, width switches)
		n := r.N(1600, 480000)
		chunks := 160
		r.Parallel(ncpu, chunks, func(wi, ci int) {
			w := newC01Worker(r)
			g := r.Rand("asm").Fork(uint64(ci))
			var local int64
			for i := 0; i < n/chunks && !r.TooMany(); i++ {
				calls, _, _ := genHistory(g, histOpts{maxCalls: 90, withRefs: true})
				e := asm.NewEmitter(make([]byte, 8192), false)
				for _, c := range calls {
					invoke(e, c)
				}
				if err := e.Finalize(); err != nil {
					w.cells["assembled:finalize-failed"]++
					continue
				}
				base := e.GetBase()
				var s ref.State
				s = genState(g)
				s.K, s.PC = byte(base>>16), uint16(base)
				s.P = s.P&^0x38 | g.U8()&0x08
				for _, c := range calls { // the width the assembler was told to assume at the start
					if c.Op == "assumesep" {
						s.P |= byte(c.Arg) & 0x30
					}
					if c.Op != "assumesep" && c.Op != "setbase" && c.Op != "comment" {
						break
					}
				}
				if s.P&0x10 != 0 {
					s.X &= 0xFF
					s.Y &= 0xFF
				}
				img := mem.New(g.U64())
				for k, b := range e.Bytes() {
					img.Ov[base&0xFF0000|(base+uint32(k))&0xFFFF] = b
				}
				st, reason := w.runProgram(s, img, g.Intn(3) == 0, g, 300, "assembled")
				local += int64(st)
				w.cells["assembled-end:"+reason]++
				if ci == 0 && i == 0 {
					r.Sample(map[string]interface{}{"assembled_calls": histStrings(calls)[:min(10, len(calls))], "base": fmt.Sprintf("$%06x", base), "steps": st, "ended": reason})
				}
			}
			r.AddExtra("assembled_program_steps", local)
			w.flush()
		})
	}
	if r.OnlyPhase == "" {
		for op := 0; op < 256; op++ {
			for mx := 0; mx < 4; mx++ {
				r.Require(fmt.Sprintf("op%02x:mx%d", op, mx))
			}
		}
		for _, k := range longRunKinds {
			r.Require("long:" + k)
		}
		for _, c := range []string{"ev:(dp),Y:index-bank-carry", "ev:(dp),Y:ea24-overflow", "ev:abs,X:ea24-overflow", "ev:long,X:ea24-overflow", "ev:abs:data24-wrap",
			"ev:abs:data-bank-cross", "ev:dp:dp-wrap", "ev:dp:bank0-data-wrap", "ev:(dp):ptr-wrap", "ev:[dp]:ptr-wrap", "ev:(abs,X):ptr-wrap", "ev:imp:stack-wrap",
			"ev:imm8:width-change", "ev:imm8:xhigh-cleared", "ev:imp:xhigh-cleared", "ev:blk:block-repeat", "ev:long:operand-wrap", "ev:(sr,S),Y:ea24-overflow",
			"ev:sr,S:dp-wrap", "ev:[dp],Y:ea24-overflow", "ev:rel8:branch-backward", "ev:immM:decimal"} {
			r.Require(c)
		}
	}
}
