//go:build !verif

package props

const hooksBuild = false

func libSharedDigest() [3]uint64 { return [3]uint64{} }
