package props

import (
	"sort"
	"sync"

	"verif/internal/vf"
)

// Exported functions the library did not have on the pinned tree are found at check time
// (tools/apiscan compares the source with api_baseline.txt) and, where they can be called with numbers
// alone and hand out slices or maps, a generated file (an overlay of this package, never committed)
// registers a "poke" for each: call it with the arguments the monitor is about to use, then scribble over
// what it returned. Memory a function hands out is the caller's to write to; if it is still the
// library's own, the judged calls that follow show it. On the pinned tree nothing is registered.
var apiPokeReg struct {
	mu    sync.Mutex
	byPkg map[string][]func([]uint64)
	keys  []string
}

func addAPIPoke(pkg, key string, f func([]uint64)) {
	apiPokeReg.mu.Lock()
	defer apiPokeReg.mu.Unlock()
	if apiPokeReg.byPkg == nil {
		apiPokeReg.byPkg = map[string][]func([]uint64){}
	}
	apiPokeReg.byPkg[pkg] = append(apiPokeReg.byPkg[pkg], f)
	apiPokeReg.keys = append(apiPokeReg.keys, key)
	sort.Strings(apiPokeReg.keys)
}

func arg(a []uint64, i int) uint64 {
	if len(a) == 0 {
		return 0
	}
	return a[i%len(a)]
}

// apiPokes calls every poke registered for the package with the given arguments (results of the pokes
// are not judged; a poke that fails is ignored).
func apiPokes(pkg string, args ...uint64) {
	fs := apiPokeReg.byPkg[pkg]
	for _, f := range fs {
		vf.Try(func() { f(args) })
	}
}

func apiPokeKeys() []string { return apiPokeReg.keys }
