package props

import (
	"fmt"
	"runtime"

	"github.com/alttpo/snes/asm"

	"verif/internal/mem"
	"verif/internal/ref"
	"verif/internal/vf"
)

func init() { reg("C07", C07) }

var condBranches = []string{"BNE", "BEQ", "BPL", "BMI", "BCC", "BCS"}

func C07(r *vf.Run) {
	r.Rule = "random straight-line programs from every Emitter method except unconditional transfers / PLP / RTI / STP - labels and conditional branches (label-based forward/backward and explicit displacement) included, the monitor forcing the tested flag so that no branch is taken -, all four initial width assumptions, REP/SEP with all 256 masks interleaved with immediates of both sizes, truthful AssumeREP/AssumeSEP calls; the emitted bytes run on both CPUs over fully mapped memory and the K:PC before each Step is compared with the emitter's PC() before each emitting call, final M/X with IsM16bit/IsX16bit; plus the exhaustive refusal matrix (width-guarded method x tracked state). A cell is (width states visited in order, capped) or (method, state, accepted|refused)"
	r.Assume = []string{"an untruthful AssumeREP/AssumeSEP is a caller error: assumptions are generated only where true", "cases in which the program stores into its own code are discarded (counted)"}

	if r.Phase("refusal-matrix") {
		for _, m := range emMethods {
			if m.Guard == gNone {
				continue
			}
			for fl := 0; fl < 4; fl++ {
				for _, other := range []byte{0x00, 0xCF} {
					flags := byte(fl)<<4 | other
					buf := make([]byte, 16)
					for i := range buf {
						buf[i] = 0xCC
					}
					e := asm.NewEmitter(buf, true)
					e.SetBase(0x008000)
					e.AssumeSEP(asm.Flags(flags))
					e.NOP()
					before := observe(e, nil)
					snap := append([]byte(nil), buf...)
					pan := vf.Try(func() { callMethod(e, m, 0x123456, "") })
					legal := guardOKFlags(m.Guard, flags)
					r.Eval(1)
					switch {
					case legal && pan != nil:
						r.Fail("guard-refuses-legal:"+m.Name, fmt.Sprintf("%s refused with tracked flags %02x although the operand size agrees: %v", m.Name, flags, pan), nil)
					case !legal && pan == nil:
						r.Fail("guard-accepts-mismatch:"+m.Name, fmt.Sprintf("%s accepted with tracked flags %02x although its operand size disagrees with the tracked width", m.Name, flags), nil)
					case !legal:
						if d := before.diff(observe(e, nil)); d != "" || string(buf) != string(snap) {
							r.Fail("refusal-changes-state:"+m.Name, fmt.Sprintf("refused %s changed %s / buffer", m.Name, d), nil)
						}
					}
					acc := "refused"
					if pan == nil {
						acc = "accepted"
					}
					r.Cell(fmt.Sprintf("guard:%s:f%d:%s", m.Name, fl, acc))
				}
			}
		}
		r.Sample(map[string]interface{}{"method": "LDA_imm8_b", "tracked_flags": "00 (m=16 bit)", "expect": "refused"})
	}

	if r.Phase("programs") {
		var straight []*emMethod
		for _, m := range emMethods {
			if !m.Transfer && m.Arg != aLabel8 && m.Arg != aLabel16 {
				straight = append(straight, m)
			}
		}
		n := r.N(6400, 6400000)
		chunks := 320
		r.Parallel(runtime.NumCPU(), chunks, func(wi, ci int) {
			rig, _ := rigPool.Get().(*cpuRig)
			if rig == nil {
				rig = newRig()
			}
			defer rigPool.Put(rig)
			g := r.Rand("prog").Fork(uint64(ci))
			cells := map[string]int64{}
			var discarded int64
			for pi := 0; pi < n/chunks && !r.TooMany(); pi++ {
				// the target is a window of a larger buffer (spare capacity behind its length); a third of the
				// windows are small enough for the program to run out of room, by direct emission or by Append
				window := 512
				if g.Intn(3) == 0 {
					window = 24 + g.Intn(200)
				}
				buf := make([]byte, window, 1024)
				full := false
				e := asm.NewEmitter(buf, g.Intn(4) == 0)
				var base uint32
				if g.Intn(5) != 0 {
					base = uint32(1+g.Intn(255))<<16 | uint32(0x2000+g.Intn(0xD000))
					e.SetBase(base)
				} else {
					base = 0
				}
				init := byte(g.Intn(4)) << 4
				other := g.U8() & 0xC7 // D stays clear: decimal is irrelevant to decoding
				var starts []uint32
				var hist []string
				// stretches of the program may be emitted into clones that are appended back (fragments
				// assembled separately); a clone may carry nothing but what the assembler was told to assume
				var pending, defined []string
				nlabel := 0
				var stack []*asm.Emitter
				push := func() {
					stack = append(stack, e)
					e = e.Clone(make([]byte, 512))
					hist = append(hist, "Clone{")
					cells["clone:opened"]++
				}
				pop := func() {
					p := stack[len(stack)-1]
					stack = stack[:len(stack)-1]
					if e.Len() == 0 {
						cells["clone:appended-without-code"]++
					}
					if len(pending) > 0 && g.Intn(3) == 0 {
						// a second candidate cloned from the same state of the original, which also branches to
						// the labels still pending, and is then dropped in favour of this one
						decoy := p.Clone(make([]byte, 512))
						vf.Try(func() {
							decoy.NOP()
							for _, name := range pending {
								decoy.BNE(name)
								decoy.NOP()
							}
						})
						cells["clone:dropped-sibling"]++
					}
					if pan := vf.Try(func() { p.Append(e) }); pan != nil {
						// the fragment does not fit what is left of the original's window: it is refused, the
						// program is what the original held before
						full = true
						hist = append(hist, "}Append refused")
						cells["clone:append-refused-for-room"]++
						e = p
						return
					}
					e = p
					hist = append(hist, "}Append")
				}
				if g.Intn(4) == 0 {
					push()
					e.AssumeSEP(asm.Flags(init))
					pop()
				} else {
					e.AssumeSEP(asm.Flags(init))
				}
				trail := fmt.Sprintf("%x", init>>4)
				ninstr := 1 + g.Intn(60)
				for len(starts) < ninstr && !full {
					if e.Len()+64 > e.Cap() {
						full = true // (no room for whatever comes next: the program ends here)
						break
					}
					cur := byte(e.Flags())
					switch k := g.Intn(12); {
					case k == 0: // REP/SEP with any mask
						m := emByName[[]string{"REP", "SEP"}[g.Intn(2)]]
						arg := uint32(g.U8())
						if g.Intn(3) == 0 {
							arg &^= 0x08
						}
						arg &^= 0x08 // keep D clear
						starts = append(starts, e.PC())
						callMethod(e, m, arg, "")
						hist = append(hist, fmt.Sprintf("%s(#$%02x)", m.Name, arg))
						if now := byte(e.Flags()) & 0x30; now != cur&0x30 && len(trail) < 12 {
							trail += fmt.Sprintf(">%x", now>>4)
						}
					case k == 2: // a label here, or a conditional branch (never taken at run time) to a label
						switch g.Intn(3) {
						case 0:
							nlabel++
							name := fmt.Sprintf("l%d", nlabel)
							e.Label(name)
							defined = append(defined, name)
							hist = append(hist, fmt.Sprintf("Label(%q)", name))
						case 1: // forward reference: the label is defined later (sometimes one that is already awaited)
							nlabel++
							name := fmt.Sprintf("f%d", nlabel)
							again := len(pending) > 0 && g.Intn(3) == 0
							if again {
								name = pending[g.Intn(len(pending))]
							}
							m := emByName[condBranches[g.Intn(len(condBranches))]]
							starts = append(starts, e.PC())
							callMethod(e, m, 0, name)
							if !again {
								pending = append(pending, name)
							}
							hist = append(hist, fmt.Sprintf("%s(%q)", m.Name, name))
						default:
							if len(pending) > 0 && g.Bool() {
								name := pending[0]
								pending = pending[1:]
								e.Label(name)
								hist = append(hist, fmt.Sprintf("Label(%q)", name))
							} else if len(defined) > 0 {
								name := defined[g.Intn(len(defined))]
								m := emByName[condBranches[g.Intn(len(condBranches))]]
								starts = append(starts, e.PC())
								callMethod(e, m, 0, name)
								hist = append(hist, fmt.Sprintf("%s(%q)", m.Name, name))
							}
						}
					case k == 5 && g.Intn(2) == 0:
						// hand-assembled code emitted as a data block: a run of one-byte instructions (any
						// length: listings break data into rows of 16), each one an instruction start
						n := []int{1, 2, 15, 16, 17, 18, 31, 32, 33, 40}[g.Intn(10)]
						if len(starts)+n > ninstr+40 {
							n = 1
						}
						blk := make([]byte, n)
						for i := range blk {
							blk[i] = []byte{0xEA, 0xE8, 0xC8, 0x1A, 0x3A, 0x18, 0x38, 0xCA, 0x88}[g.Intn(9)]
							starts = append(starts, e.PC()+uint32(i))
						}
						e.EmitBytes(blk)
						hist = append(hist, fmt.Sprintf("EmitBytes(%d one-byte instructions)", n))
						if g.Intn(3) == 0 {
							e.Comment("hand-assembled")
						}
						cells["data-block-of-code"]++
					case k == 4 && g.Intn(3) == 0:
						if len(stack) < 3 && (len(stack) == 0 || g.Bool()) {
							push()
						} else {
							pop()
						}
					case k == 3: // explicit-displacement conditional branch, never taken at run time
						m := emByName[[]string{"BNE_imm8", "BEQ_imm8", "BPL_imm8"}[g.Intn(3)]]
						arg := uint32(g.U8())
						starts = append(starts, e.PC())
						callMethod(e, m, arg, "")
						hist = append(hist, fmt.Sprintf("%s($%02x)", m.Name, arg))
					case k == 1: // truthful assumption
						if g.Bool() {
							c := cur&0x30&g.U8() | g.U8()&0xC7&cur // only bits already set
							e.AssumeSEP(asm.Flags(c))
							hist = append(hist, fmt.Sprintf("AssumeSEP($%02x)", c))
						} else {
							c := ^cur & g.U8() // only bits already clear
							e.AssumeREP(asm.Flags(c))
							hist = append(hist, fmt.Sprintf("AssumeREP($%02x)", c))
						}
						if byte(e.Flags())&0x30 != cur&0x30 {
							r.Fail("assume-moves-width", fmt.Sprintf("truthful Assume call changed tracked widths %02x -> %02x", cur, byte(e.Flags())), hist)
						}
					default:
						m := straight[g.Intn(len(straight))]
						if m.Name == "REP" || m.Name == "SEP" {
							continue
						}
						arg := g.U32() & 0xFFFFFF
						if !guardOKFlags(m.Guard, cur) {
							// a mismatching immediate must be refused and leave no trace
							n0, pc0 := e.Len(), e.PC()
							pan := vf.Try(func() { callMethod(e, m, arg, "") })
							if pan == nil {
								r.Fail("guard-accepts-mismatch:"+m.Name, fmt.Sprintf("%s accepted under tracked flags %02x", m.Name, cur), hist)
							} else if e.Len() != n0 || e.PC() != pc0 {
								r.Fail("refusal-changes-state:"+m.Name, "refused call changed Len/PC", hist)
							}
							continue
						}
						starts = append(starts, e.PC())
						if pan := vf.Try(func() { callMethod(e, m, arg, "") }); pan != nil {
							r.Fail("guard-refuses-legal:"+m.Name, fmt.Sprintf("%s refused under tracked flags %02x: %v", m.Name, cur, pan), hist)
							starts = starts[:len(starts)-1]
							continue
						}
						hist = append(hist, fmt.Sprintf("%s($%x)", m.Name, arg&(uint32(1)<<(8*uint(m.size()-1))-1)))
					}
				}
				for _, name := range pending {
					e.Label(name)
				}
				for len(stack) > 0 {
					pop()
				}
				// instruction starts reported by fragments that were refused are not part of the program
				for len(starts) > 0 && starts[len(starts)-1] >= e.PC() {
					starts = starts[:len(starts)-1]
				}
				// a program with labels is finalized before it runs (an out-of-range branch makes Finalize
				// report an error; the branches are never taken here, so the program still runs)
				if nlabel > 0 {
					if pan := vf.Try(func() { _ = e.Finalize() }); pan != nil {
						r.Fail("finalize-panics", fmt.Sprintf("Finalize panicked: %v", pan), hist)
						continue
					}
					cells["program-finalized"]++
				}
				end := e.PC()
				code := append([]byte(nil), e.Bytes()...)
				if int(end-base) != len(code) {
					r.Fail("pc-vs-len", fmt.Sprintf("PC()-base=%d but Len()=%d", end-base, len(code)), hist)
					continue
				}
				// run on both CPUs
				img := mem.New(g.U64())
				for i, b := range code {
					img.Ov[base+uint32(i)] = b
				}
				var s ref.State
				s = genState(g)
				s.K, s.PC = byte(base>>16), uint16(base)
				s.P = other | init
				if s.P&0x10 != 0 {
					s.X &= 0xFF
					s.Y &= 0xFF
				}
				s.S = 0x01FF
				s.D = uint16(g.Intn(0x1000))
				s.DBR = byte(g.Intn(256))
				for s.DBR == s.K {
					s.DBR++
				}
				rig.loadPrim(s, g.Intn(3) == 0, g)
				rig.loadAltFromPrim()
				selfmod := false
				for _, side := range []string{"cpu65c816", "cpualt"} {
					m := img.Clone()
					m.NoRdSet = true
					var fetched []uint32
					var fm, fx byte
					bad := false
					for step := 0; step < len(starts)+4; step++ {
						var k byte
						var pc uint16
						if side == "cpu65c816" {
							k, pc = rig.prim.RK, rig.prim.PC
						} else {
							k, pc = rig.alt.RK, rig.alt.PC
						}
						at := uint32(k)<<16 | uint32(pc)
						if at == end {
							break
						}
						fetched = append(fetched, at)
						// conditional branches are never taken (straight-line execution): force the tested flag
						if op := m.Peek(at); op&0x1F == 0x10 {
							var n, v, c, z *byte
							if side == "cpu65c816" {
								n, v, c, z = &rig.prim.N, &rig.prim.V, &rig.prim.C, &rig.prim.Z
							} else {
								n, v, c, z = &rig.alt.N, &rig.alt.V, &rig.alt.C, &rig.alt.Z
							}
							switch op {
							case 0x10:
								*n = 1
							case 0x30:
								*n = 0
							case 0x50:
								*v = 1
							case 0x70:
								*v = 0
							case 0x90:
								*c = 1
							case 0xB0:
								*c = 0
							case 0xD0:
								*z = 1
							case 0xF0:
								*z = 0
							}
						}
						// block moves execute once: force the byte count to zero
						if m.Peek(at) == 0x54 {
							if side == "cpu65c816" {
								rig.prim.RA, rig.prim.RAl, rig.prim.RAh = 0, 0, 0
							} else {
								rig.alt.RA, rig.alt.RAl, rig.alt.RAh = 0, 0, 0
							}
						}
						var res stepRes
						if side == "cpu65c816" {
							res = rig.stepPrim(m)
						} else {
							res = rig.stepAlt(m)
						}
						if res.pan != nil {
							r.Fail("cpu-panics", fmt.Sprintf("%s panicked at $%06x: %v", side, at, res.pan), hist)
							bad = true
							break
						}
					}
					for a := range m.Wr {
						if a >= base && a < base+uint32(len(code)) {
							selfmod = true
						}
					}
					if bad || selfmod {
						continue
					}
					if side == "cpu65c816" {
						fm, fx = rig.prim.M, rig.prim.X
					} else {
						fm, fx = rig.alt.M, rig.alt.X
					}
					same := len(fetched) == len(starts)
					for i := 0; same && i < len(starts); i++ {
						same = fetched[i] == starts[i]
					}
					if !same {
						i := 0
						for i < len(fetched) && i < len(starts) && fetched[i] == starts[i] {
							i++
						}
						var at, want uint32
						if i < len(fetched) {
							at = fetched[i]
						}
						if i < len(starts) {
							want = starts[i]
						}
						prev := "start"
						if i > 0 && i-1 < len(hist) {
							prev = fmt.Sprintf("instruction #%d at $%06x", i-1, starts[i-1])
						}
						r.Fail("boundary-mismatch:"+side, fmt.Sprintf("%s fetched an opcode at $%06x where the emitter reported an instruction start at $%06x (after %s); %d fetches vs %d starts; initial widths %02x", side, at, want, prev, len(fetched), len(starts), init), hist)
						continue
					}
					wantM, wantX := byte(1), byte(1)
					if e.IsM16bit() {
						wantM = 0
					}
					if e.IsX16bit() {
						wantX = 0
					}
					if fm != wantM || fx != wantX {
						r.Fail("final-widths:"+side, fmt.Sprintf("%s ends with M=%d X=%d, the emitter tracks M=%d X=%d", side, fm, fx, wantM, wantX), hist)
					}
				}
				if selfmod {
					discarded++
					continue
				}
				r.Eval(1)
				cells["widths:"+trail]++
				if ci == 0 && pi < 2 {
					r.Sample(map[string]interface{}{"base": fmt.Sprintf("$%06x", base), "initial_flags": fmt.Sprintf("%02x", init), "calls": hist[:min(len(hist), 12)], "instructions": len(starts)})
				}
			}
			r.MergeCells(cells)
			r.AddExtra("discarded_self_modifying", discarded)
		})
	}
	if r.OnlyPhase == "" {
		r.RequireSub("widths:0>")
		r.RequireSub("widths:3>")
		r.RequireSub("guard:LDX_imm16_w:f1:refused")
	}
}
