// Package props holds one runtime monitor per property C01..C19.
package props

import (
	"fmt"
	"os"
	"os/exec"
	"path/filepath"
	"runtime"
	"strings"
	"sync"

	"verif/internal/vf"
)

var Registry = map[string]func(*vf.Run){}

func reg(id string, fn func(*vf.Run)) { Registry[id] = fn }

// runChild re-runs this monitor in a fresh child process with extra environment (a different
// first-use order, ...) and folds its verdict into r. It does nothing inside a child.
func runChild(r *vf.Run, label string, env ...string) {
	if os.Getenv("VERIF_CHILD") != "" || r.OnlyPhase != "" {
		return
	}
	exe, err := os.Executable()
	if err != nil {
		r.Inconclusive("cannot locate own executable for child runs: " + err.Error())
		return
	}
	runChildExe(r, exe, label, env...)
}

// OtherTarget re-runs the whole monitor with the harness and the library compiled for a 32-bit
// target (GOARCH=386, built by ./check - with the other installed Go release, go1.26.8, when present -
// and named in VERIF_BIN386; int, uint and uintptr are 32 bits wide there) and with an aggressive
// garbage collector: build target, toolchain/runtime release and the collector's pace are part of the
// environment, and none of the properties is stated for one of them only.
func OtherTarget(r *vf.Run) {
	exe := os.Getenv("VERIF_BIN386")
	if exe == "" || os.Getenv("VERIF_CHILD") != "" || r.OnlyPhase != "" || r.ID == "C18" {
		return // (the race detector does not exist for 386: C18 stays on the native target)
	}
	if exe == "unavailable" {
		r.SetExtra("goarch_386", "the harness did not build for GOARCH=386 against this tree: not run there")
		return
	}
	runChildExe(r, exe, "goarch-386", "GOGC=10", "GOMAXPROCS=12", "VERIF_ERRORS_FIRST=1")
	r.SetExtra("goarch_386", "whole monitor repeated in a GOARCH=386 build (made with go1.26.8 where installed) with GOGC=10 and GOMAXPROCS=12")
}

// ThirdTarget runs the portable probe (initprobe/, built for js/wasm by ./check and executed by node)
// for the area this property lives in: a build target that is neither amd64 nor 386.
func ThirdTarget(r *vf.Run) {
	cmdline := strings.Fields(os.Getenv("VERIF_WASM_PROBE"))
	if len(cmdline) < 2 || os.Getenv("VERIF_CHILD") != "" || r.OnlyPhase != "" {
		return
	}
	area := probeArea[r.ID]
	if area == "" {
		return
	}
	b, err := exec.Command(cmdline[0], append(cmdline[1:], area)...).CombinedOutput()
	r.Eval(1)
	out := string(b)
	code := 0
	if ee, ok := err.(*exec.ExitError); ok {
		code = ee.ExitCode()
	} else if err != nil {
		r.SetExtra("js_wasm_probe", "did not start: "+err.Error())
		return
	}
	first := ""
	for _, ln := range strings.Split(out, "\n") {
		if strings.HasPrefix(ln, "probe-violation") || strings.HasPrefix(ln, "panic:") {
			first = ln
			break
		}
	}
	switch {
	case code == 0:
		r.Cell("third-target:js-wasm:" + area)
		r.SetExtra("js_wasm_probe", strings.TrimSpace(out))
	case first != "":
		r.Fail("on-js-wasm-target", "built for js/wasm (neither amd64 nor 386): "+first, map[string]string{"area": area})
	default:
		r.SetExtra("js_wasm_probe", fmt.Sprintf("exit %d without a finding: %.200s", code, out))
	}
}

var probeArea = map[string]string{"C01": "cpu", "C02": "cpu", "C08": "cpu", "C12": "cpu", "C14": "cpu", "C03": "emitter", "C06": "emitter", "C07": "emitter",
	"C15": "emitter", "C16": "emitter", "C19": "emitter", "C04": "mappers", "C05": "mappers", "C09": "header", "C10": "rom", "C11": "bus", "C13": "bus", "C17": "colour"}

// OtherMachines runs the probe of this property's area (native build, VERIF_NATIVE_PROBE) in processes
// confined to 1, 3, 5, 6, 7 and 12 processors (taskset): runtime.NumCPU is fixed when a process starts
// and GOMAXPROCS does not change it; the machine a user runs on has some other number of cores than this
// one, and none of the properties mentions it.
func OtherMachines(r *vf.Run) {
	probe := os.Getenv("VERIF_NATIVE_PROBE")
	area := probeArea[r.ID]
	if probe == "" || area == "" || os.Getenv("VERIF_CHILD") != "" || r.OnlyPhase != "" {
		return
	}
	ts, err := exec.LookPath("taskset")
	if err != nil {
		r.SetExtra("other_processor_counts", "taskset not installed: not run")
		return
	}
	var ran []string
	for _, n := range []int{1, 3, 5, 6, 7, 12} {
		if n > runtime.NumCPU() {
			continue
		}
		b, err := exec.Command(ts, "-c", fmt.Sprintf("0-%d", n-1), probe, area).CombinedOutput()
		r.Eval(1)
		if ee, ok := err.(*exec.ExitError); ok && ee.ExitCode() == 1 {
			first := "the probe reported a violation"
			for _, ln := range strings.Split(string(b), "\n") {
				if strings.HasPrefix(ln, "probe-violation") || strings.HasPrefix(ln, "panic:") {
					first = ln
					break
				}
			}
			r.Fail(fmt.Sprintf("on-a-machine-with-%d-processors", n), fmt.Sprintf("process confined to %d processors: %s", n, first), map[string]string{"area": area})
			continue
		} else if err != nil {
			r.SetExtra("other_processor_counts", fmt.Sprintf("%d: did not run: %v", n, err))
			continue
		}
		ran = append(ran, fmt.Sprint(n))
		r.Cell(fmt.Sprintf("processors:%d:%s", n, area))
	}
	r.SetExtra("other_processor_counts", "probe area "+area+" held in processes confined to "+strings.Join(ran, ",")+" processors")
}

// ManyColdStarts: what a process settles once, at start-up - the iteration order of a map walked by an
// initialiser, a hash seed, where the runtime places things - is a draw; one process (or twenty) sees one
// draw. The native probe is started thousands of times (its smallest sample for the mapper and colour
// monitors, the property's area a few hundred times for the others) and every start must hold.
func ManyColdStarts(r *vf.Run) {
	probe := os.Getenv("VERIF_NATIVE_PROBE")
	area := probeArea[r.ID]
	if probe == "" || area == "" || os.Getenv("VERIF_CHILD") != "" || r.OnlyPhase != "" {
		return
	}
	n := map[string]int{"mappers": 8000, "colour": 4000, "emitter": 300, "header": 100, "rom": 150, "bus": 80, "cpu": 32}[area]
	if area == "mappers" || area == "colour" {
		area = "coldstart"
	}
	var mu sync.Mutex
	first, failed, ran := "", 0, 0
	workers := runtime.NumCPU()
	var wg sync.WaitGroup
	for w := 0; w < workers; w++ {
		wg.Add(1)
		go func(w int) {
			defer wg.Done()
			for i := w; i < n; i += workers {
				b, err := exec.Command(probe, area).CombinedOutput()
				mu.Lock()
				ran++
				if ee, ok := err.(*exec.ExitError); ok && ee.ExitCode() == 1 {
					failed++
					if first == "" {
						first = fmt.Sprintf("start #%d: the probe reported a violation", i)
						for _, ln := range strings.Split(string(b), "\n") {
							if strings.HasPrefix(ln, "probe-violation") || strings.HasPrefix(ln, "panic:") {
								first = fmt.Sprintf("start #%d: %s", i, ln)
								break
							}
						}
					}
				}
				stop := failed > 0
				mu.Unlock()
				if stop {
					return
				}
			}
		}(w)
	}
	wg.Wait()
	r.Eval(int64(ran))
	if failed > 0 {
		r.Fail("in-one-of-many-cold-starts", fmt.Sprintf("%d of %d identical fresh processes: %s", failed, ran, first), map[string]string{"area": area})
		return
	}
	r.CellN("cold-starts:"+area, int64(ran))
	r.SetExtra("identical_cold_starts", fmt.Sprintf("%d fresh processes ran probe area %s; all held", ran, area))
}

// ConfigChildren: configurations the library's own source reveals (found by ./check scanning it): a build
// tag that selects files gets a child built with that tag; an environment variable the library reads
// gets children that run with it set to the short string literals of the file that reads it. None of the
// properties is stated for one configuration only. On the pinned tree there is nothing to find.
func ConfigChildren(r *vf.Run) {
	if os.Getenv("VERIF_CHILD") != "" || r.OnlyPhase != "" {
		return
	}
	for _, tb := range strings.Fields(os.Getenv("VERIF_TAG_BINS")) {
		if i := strings.IndexByte(tb, '='); i > 0 && r.ID != "C18" {
			runChildExe(r, tb[i+1:], "build-tag-"+tb[:i])
		}
	}
	probes := strings.Fields(os.Getenv("VERIF_ENV_PROBES"))
	if len(probes) > 16 {
		probes = probes[:16]
	}
	for _, kv := range probes {
		if r.ID != "C18" {
			runChild(r, "environment-"+kv, kv)
		}
	}
}

// ErrorsFirstChild: for the monitors that are cheap enough, one more child on the native target whose
// first use of the library is ErrorsFirst (the 386 child of every monitor starts that way as well).
func ErrorsFirstChild(r *vf.Run) {
	switch r.ID {
	case "C06", "C07", "C09", "C10", "C13", "C15", "C16", "C17":
		runChild(r, "errors-first", "VERIF_ERRORS_FIRST=1")
	}
}

func runChildExe(r *vf.Run, exe, label string, env ...string) {
	var err error
	out := filepath.Join(vf.ScratchDir(), "child-"+r.ID+"-"+label)
	_ = os.MkdirAll(out, 0o755)
	defer os.RemoveAll(out)
	tier := r.Tier
	if label == "goarch-386" || strings.HasPrefix(label, "build-tag-") || strings.HasPrefix(label, "environment-") {
		tier = "quick" // the other target is about the environment, not about depth
	}
	cmd := exec.Command(exe, r.ID, tier)
	cmd.Env = append(append(os.Environ(), "VERIF_CHILD=1", "VERIF_OUT="+out, fmt.Sprintf("VERIF_SEED=%d", r.Seed)), env...)
	b, err := cmd.CombinedOutput()
	r.Eval(1)
	r.Cell("child-process:" + label)
	code := 0
	if ee, ok := err.(*exec.ExitError); ok {
		code = ee.ExitCode()
	} else if err != nil {
		r.Inconclusive("child run failed to start: " + err.Error())
		return
	}
	switch code {
	case 0:
	case 1:
		first := "child reported a violation"
		for _, ln := range strings.Split(string(b), "\n") {
			if strings.Contains(ln, "violation[") {
				first = strings.TrimSpace(ln)
				break
			}
		}
		r.Fail("in-fresh-process:"+label, fmt.Sprintf("fresh process (%s): %s", label, first), map[string]interface{}{"env": env})
	default:
		r.Inconclusive(fmt.Sprintf("child run (%s) exited %d", label, code))
	}
}
