// Package props holds one runtime monitor per property C01..C19.
package props

import "verif/internal/vf"

var Registry = map[string]func(*vf.Run){}

func reg(id string, fn func(*vf.Run)) { Registry[id] = fn }
