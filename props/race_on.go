//go:build race

package props

const raceBuild = true
