package props

import (
	"bytes"
	"fmt"

	"github.com/alttpo/snes/mapping/lorom"

	"verif/internal/ref"
	"verif/internal/vf"
)

// mapperMem is the memory the property describes, seen by the reference model of the CPU: every access
// goes through lorom.BusAddressToPak to the shadow copy of the cell the mapper designates. An access to
// an address the mapper does not assign ends the case (nothing is claimed about it).
type mapperMem struct {
	h        *sysShadow
	unmapped bool
	touched  int
	codeLo   uint32 // the program's own bytes: a store onto them ends the case as well
	codeHi   uint32
	served   map[uint32]bool
}

func (m *mapperMem) at(a uint32) ([]byte, int, bool) {
	p, err := lorom.BusAddressToPak(a & 0xFFFFFF)
	if err != nil {
		m.unmapped = true
		return nil, 0, false
	}
	_, _, sh, idx, ok := m.h.cell(p)
	if ok {
		// (the property speaks of the addresses the emulator serves: a block the System attaches nothing to is outside it)
		srv, known := m.served[a>>4]
		if !known {
			_, srv = busRead(m.h.s, a)
			m.served[a>>4] = srv
		}
		ok = srv
	}
	if !ok {
		m.unmapped = true
	}
	return sh, idx, ok
}
func (m *mapperMem) Rd(a uint32) byte {
	if sh, i, ok := m.at(a); ok {
		return sh[i]
	}
	return 0
}
func (m *mapperMem) Wr(a uint32, v byte) {
	if sh, i, ok := m.at(a); ok {
		if lo, _, _ := m.at(m.codeLo); len(lo) > 0 && &lo[0] == &sh[0] {
			_, i0, _ := m.at(m.codeLo)
			if i >= i0 && i <= i0+int(m.codeHi-m.codeLo) {
				m.unmapped = true
				return
			}
		}
		sh[i] = v
		m.touched++
	}
}

// accessesByInstruction: the memory map is the same whichever instruction makes the access - block
// moves, pushes and pulls, read-modify-write, 16-bit accesses across the end of a bank or of a window,
// indirect and indexed modes - and wherever the program lives (ROM half-bank, work RAM, its low mirror,
// cartridge RAM). Small programs are run by System.RunUntil (with and without a Logger) and by the
// reference model over the mapper-defined memory; registers and all three arrays must agree.
func c11AccessesByInstruction(r *vf.Run, workers int) {
	if !r.Phase("accesses-by-instruction") {
		return
	}
	nsys := r.N(8, 32)
	per := r.N(600, 6000)
	r.Parallel(workers, nsys, func(w, si int) {
		g := r.Rand("byins").Fork(uint64(si))
		h, err := newSysShadow(g, si%12)
		if err != nil {
			r.Fail("create-emulator", err.Error(), nil)
			return
		}
		cells := map[string]int64{}
		served := map[uint32]bool{}
		// where data may live: (bank, lowest offset, highest offset) of windows backed by an array
		dataWin := [][3]uint32{{0x7E, 0, 0xFFFF}, {0x7F, 0, 0xFFFF}, {0x00, 0, 0x1FFF}, {0x3F, 0, 0x1FFF}, {0x80, 0, 0x1FFF}, {0x70, 0, 0x7FFF}, {0x71, 0, 0x7FFF},
			{0x00, 0x8000, 0xFFFF}, {0x01, 0x8000, 0xFFFF}, {0x80, 0x8000, 0xFFFF}, {0xC0, 0x8000, 0xFFFF}, {0x40, 0x8000, 0xFFFF}}
		codeAt := []uint32{0x7E1F00, 0x7F8000, 0x000100, 0x008000, 0x01C000, 0x808000, 0xBF9000, 0x700100, 0x7E0000 + 0xFF00}
		nearEdge := func(lo, hi uint32) uint16 {
			switch g.Intn(4) {
			case 0:
				return uint16(hi - uint32(g.Intn(40)))
			case 1:
				return uint16(lo + uint32(g.Intn(40)))
			default:
				return uint16(lo + uint32(g.Intn(int(hi-lo+1))))
			}
		}
		for ci := 0; ci < per && !r.TooMany(); ci++ {
			var st ref.State
			st.E = false
			st.P = g.U8() &^ 0x08 // binary arithmetic
			st.A, st.X, st.Y = g.U16(), g.U16(), g.U16()
			if st.P&0x10 != 0 {
				st.X, st.Y = st.X&0xFF, st.Y&0xFF
			}
			st.D = uint16(g.Intn(0x1F00))
			st.S = uint16(0x0100 + g.Intn(0x1E00))
			code := codeAt[g.Intn(len(codeAt))]
			st.K, st.PC = byte(code>>16), uint16(code)
			dw := dataWin[g.Intn(len(dataWin))]
			st.DBR = byte(dw[0])
			var prog []byte
			kind := ""
			maxSteps := 8
			switch g.Intn(8) {
			case 0, 1: // block move between two windows; the indexes may run over the end of the bank
				sw, tw := dataWin[g.Intn(len(dataWin))], dataWin[g.Intn(len(dataWin))]
				op := byte(0x54)
				kind = "mvn"
				if g.Bool() {
					op, kind = 0x44, "mvp"
				}
				st.P &^= 0x10
				if g.Intn(4) == 0 {
					st.P |= 0x10
				}
				st.A = uint16(g.Intn(300))
				st.X, st.Y = nearEdge(sw[1], sw[2]), nearEdge(tw[1], tw[2])
				if st.P&0x10 != 0 {
					st.X, st.Y = st.X&0xFF, st.Y&0xFF
				}
				prog = []byte{op, byte(tw[0]), byte(sw[0])}
				maxSteps = int(st.A) + 3
			case 2: // 16-bit store / load through a long address at the edge of a window
				a := dw[0]<<16 | uint32(nearEdge(dw[1], dw[2]))
				st.P &^= 0x20
				prog = []byte{0x8F, byte(a), byte(a >> 8), byte(a >> 16), 0xAF, byte(a), byte(a >> 8), byte(a >> 16)}
				kind = "sta-lda-long-16"
			case 3: // read-modify-write through the data bank, indexed
				off := nearEdge(dw[1], dw[2])
				prog = []byte{0xFE, byte(off), byte(off >> 8), 0x1E, byte(off), byte(off >> 8), 0x9C, byte(off), byte(off >> 8)} // INC abs,X ; ASL abs,X ; STZ abs
				st.X = uint16(g.Intn(3))
				st.P &^= 0x10
				kind = "rmw-abs-x"
			case 4: // pushes and pulls (the stack is in work RAM's low mirror)
				prog = []byte{0x48, 0xDA, 0x5A, 0x8B, 0x0B, 0x4B, 0x08, 0xF4, g.U8(), g.U8(), 0x28, 0xAB, 0x2B, 0x7A, 0xFA, 0x68}
				if cut := 1 + g.Intn(len(prog)); cut < 8 || cut >= 10 { // (not inside the PEA)
					prog = prog[:cut]
				}
				maxSteps = len(prog)
				kind = "push-pull"
			case 5: // indirect long through a direct-page pointer the program stores first
				a := dw[0]<<16 | uint32(nearEdge(dw[1], dw[2]))
				dp := g.U8()
				st.P &^= 0x30
				// LDA #lo16 ; STA dp ; LDA #bank ; STA dp+2 ; LDA #v ; STA [dp],Y ; LDA [dp]
				prog = []byte{0xA9, byte(a), byte(a >> 8), 0x85, dp, 0xA9, byte(a >> 16), 0x00, 0x85, dp + 2, 0xA9, g.U8(), g.U8(), 0x97, dp, 0xA7, dp}
				st.Y = uint16(g.Intn(4))
				kind = "indirect-long"
			case 6: // stores through the data bank with a 16-bit index running over the end of the bank
				off := uint16(0xFFF0 + g.Intn(16))
				st.P &^= 0x10
				st.X = uint16(g.Intn(0x40))
				prog = []byte{0x9D, byte(off), byte(off >> 8), 0xBD, byte(off), byte(off >> 8)}
				kind = "abs-x-over-bank-end"
			default: // TSB/TRB/DEC on direct page, STX/STY, 16-bit
				dp := g.U8()
				prog = []byte{0x04, dp, 0x14, dp + 1, 0xC6, dp, 0x86, dp, 0x84, dp + 2, 0x64, dp + 1}
				kind = "direct-page"
			}
			prog = append(prog, 0xEA)
			target := uint32(st.K)<<16 | uint32(st.PC+uint16(len(prog))-1)
			// the program is stored into both the live arrays and the shadow, through the mapper
			ok := true
			for j, x := range prog {
				a := uint32(st.K)<<16 | uint32(st.PC+uint16(j))
				p, err := lorom.BusAddressToPak(a)
				if err != nil {
					ok = false
					break
				}
				_, live, sh, idx, okc := h.cell(p)
				if !okc {
					ok = false
					break
				}
				live[idx], sh[idx] = x, x
			}
			if !ok {
				continue
			}
			// model
			mm := &mapperMem{h: h, served: served, codeLo: code, codeHi: code + uint32(len(prog)) - 1}
			ms := st
			steps := 0
			if pan := vf.Try(func() {
				for ; steps < maxSteps+4 && !mm.unmapped; steps++ {
					if uint32(ms.K)<<16|uint32(ms.PC) == target {
						break
					}
					ref.Step(&ms, mm)
				}
			}); pan != nil {
				mm.unmapped = true // the model does not cover where this program went: nothing is claimed
			}
			reached := uint32(ms.K)<<16|uint32(ms.PC) == target
			// the real machine
			tmp := &cpuRig{bus: &h.s.Bus}
			tmp.loadPrim(st, false, g)
			h.s.CPU = tmp.prim
			var lg bytes.Buffer
			h.s.Logger = nil
			logged := g.Intn(3) == 0
			if logged {
				h.s.Logger = &lg
			}
			pan := vf.Try(func() { h.s.RunUntil(target, uint64(maxSteps+4)*12) })
			h.s.Logger = nil
			r.Eval(1)
			ctx := fmt.Sprintf("program %s (% x) at $%06x, start {%v}, Logger attached: %v", kind, prog[:len(prog)-1], code, st, logged)
			if mm.unmapped || !reached {
				// the program left the memory the mapper assigns: nothing is claimed; both sides start the
				// next case from the live arrays
				copy(h.rom, h.s.ROM[:])
				copy(h.wram, h.s.WRAM[:])
				copy(h.sram, h.s.SRAM[:])
				cells["byins:left-the-map"]++
				continue
			}
			if pan != nil {
				r.Fail("access-by-instruction-panics", fmt.Sprintf("%s: RunUntil panicked although every access is to memory the mapper assigns: %v", ctx, pan), nil)
				return
			}
			if d := diffState(ms, absPrim(&h.s.CPU)); len(d) > 0 {
				r.Fail("access-by-instruction-state:"+kind, fmt.Sprintf("%s: %v differ: model over the mapper's memory {%v}, System {%v}", ctx, d, ms, absPrim(&h.s.CPU)), nil)
				return
			}
			if d := h.diff(); d != "" {
				r.Fail("access-by-instruction-memory:"+kind, fmt.Sprintf("%s: %s differs from the cell the mapper designates", ctx, d), nil)
				return
			}
			cells["byins:"+kind]++
			if logged {
				cells["byins:logged"]++
			}
		}
		r.MergeCells(cells)
	})
	if r.OnlyPhase == "" {
		for _, k := range []string{"mvn", "mvp", "sta-lda-long-16", "rmw-abs-x", "push-pull", "indirect-long", "abs-x-over-bank-end", "direct-page"} {
			r.Require("byins:" + k)
		}
	}
}
