package props

import (
	"fmt"
	"runtime"
	"strings"
	"sync"
	"sync/atomic"

	"github.com/alttpo/snes/emulator"
	"github.com/alttpo/snes/emulator/cpu65c816"
	"github.com/alttpo/snes/emulator/cpualt"

	"verif/internal/mem"
	"verif/internal/ref"
	"verif/internal/vf"
)

func init() { reg("C12", C12) }

// sysRig is an emulator.System whose whole bus is mapped onto the instrumented image.
type sysRig struct {
	s  *emulator.System
	bm *mem.BusMem
}

func newSysRig() *sysRig {
	g := &sysRig{s: new(emulator.System), bm: &mem.BusMem{}}
	g.s.CPU.Init(&g.s.Bus)
	if err := g.s.Bus.Attach(g.bm, "all", 0, 0xFFFFFF); err != nil {
		panic(err)
	}
	return g
}

var sysPool = make(chan *sysRig, 64)

func getSysRig() *sysRig {
	select {
	case g := <-sysPool:
		return g
	default:
		return newSysRig()
	}
}
func putSysRig(g *sysRig) {
	g.s.Logger = nil
	select {
	case sysPool <- g:
	default:
	}
}

func (g *sysRig) load(s ref.State, stale bool, r *vf.Rng, img *mem.Image) {
	tmp := &cpuRig{bus: &g.s.Bus}
	tmp.loadPrim(s, stale, r)
	g.s.CPU = tmp.prim
	g.bm.M = img
}

// hookPlan is one program-counter callback that acts on its own CPU.
type hookPlan struct {
	at   uint32
	kind int // 0 redirect to `to`, 1 request IRQ, 2 request NMI, 3 toggle carry, 4 one-shot (removes itself), 5 resets the CPU's running cycle total (a host sampling it per frame)
	to   uint32
}

func (h hookPlan) String() string {
	return fmt.Sprintf("$%06x:%s", h.at, []string{fmt.Sprintf("jump-to-$%06x", h.to), "request-irq", "request-nmi", "toggle-carry", "one-shot", "reset-cycle-total"}[h.kind])
}

// installHooks registers the plan on c. maxCalls bounds the number of callback invocations (0: no
// bound): passing it raises mem.LimitExceeded, a logical step bound for runs that may not end.
func installHooks(c *cpu65c816.CPU, plan []hookPlan, pending int, maxCalls int) {
	calls := 0
	guard := func(f func()) func() {
		return func() {
			calls++
			if maxCalls > 0 && calls > maxCalls {
				panic(mem.LimitExceeded{Reads: -calls})
			}
			f()
		}
	}
	switch pending {
	case 1:
		c.TriggerIRQ()
	case 2:
		c.Interrupt = 2 // NMI
	}
	if len(plan) == 0 {
		return
	}
	c.OnPC = map[uint32]func(){}
	for _, h := range plan {
		h := h
		switch h.kind {
		case 0:
			c.OnPC[h.at] = guard(func() { c.RK, c.PC = byte(h.to>>16), uint16(h.to) })
		case 1:
			c.OnPC[h.at] = guard(func() { c.TriggerIRQ() })
		case 2:
			c.OnPC[h.at] = guard(func() { c.Interrupt = 2 })
		case 3:
			c.OnPC[h.at] = guard(func() { c.C ^= 1 })
		case 5:
			c.OnPC[h.at] = guard(func() { c.AllCycles = uint64(h.to & 0xFF) })
		default:
			c.OnPC[h.at] = guard(func() { delete(c.OnPC, h.at) })
		}
	}
}

// fastMem: a flat 16 MiB RAM device that counts reads and raises mem.LimitExceeded beyond its limit.
type fastMem struct {
	data  []byte
	reads int64
	limit int64
}

func (f *fastMem) Read(a uint32) byte {
	f.reads++
	if f.reads > f.limit {
		panic(mem.LimitExceeded{Reads: int(f.reads >> 10)})
	}
	return f.data[a]
}
func (f *fastMem) Write(a uint32, v byte) { f.data[a] = v }
func (f *fastMem) Shutdown()              {}
func (f *fastMem) Size() uint32           { return 1 << 24 }
func (f *fastMem) Clear()                 {}
func (f *fastMem) Dump(uint32) []byte     { return nil }

type countWriter struct {
	writes int
	bytes  int
	lines  []string
	keep   bool
}

func (w *countWriter) Write(p []byte) (int, error) {
	w.writes++
	w.bytes += len(p)
	if w.keep {
		w.lines = append(w.lines, string(p))
	}
	return len(p), nil
}

type reserveWriter struct {
	countWriter
	reserved, commits int
	onCommit          func()
}

func (w *reserveWriter) Reserve(n int) { w.reserved += n }
func (w *reserveWriter) Commit() {
	w.commits++
	if w.onCommit != nil {
		w.onCommit()
	}
}

// cycleFactors computes the documented cycle factors of the instruction at K:PC in state s.
func cycleFactors(s ref.State, img *mem.Image) (op byte, pcross, rel8, taken, bcross bool) {
	k := uint32(s.K) << 16
	op = img.Peek(k | uint32(s.PC))
	o1 := img.Peek(k | uint32(s.PC+1))
	o2 := img.Peek(k | uint32(s.PC+2))
	o16 := uint16(o1) | uint16(o2)<<8
	switch ref.Table[op].Mode {
	case ref.AbsX:
		pcross = o16&0xFF00 != (o16+s.X)&0xFF00
	case ref.AbsY:
		pcross = o16&0xFF00 != (o16+s.Y)&0xFF00
	case ref.DpIndY:
		p := s.D + uint16(o1)
		ptr := uint16(img.Peek(uint32(p))) | uint16(img.Peek(uint32(p+1)))<<8
		pcross = ptr&0xFF00 != (ptr+s.Y)&0xFF00
	case ref.Rel8:
		rel8 = true
		var cond bool
		switch ref.MnemNames[ref.Table[op].M] {
		case "bpl":
			cond = s.P&0x80 == 0
		case "bmi":
			cond = s.P&0x80 != 0
		case "bvc":
			cond = s.P&0x40 == 0
		case "bvs":
			cond = s.P&0x40 != 0
		case "bcc":
			cond = s.P&0x01 == 0
		case "bcs":
			cond = s.P&0x01 != 0
		case "bne":
			cond = s.P&0x02 == 0
		case "beq":
			cond = s.P&0x02 != 0
		case "bra":
			cond = true
		}
		taken = cond
		target := s.PC + 2 + uint16(int16(int8(o1)))
		bcross = taken && (s.PC+2)&0xFF00 != target&0xFF00
	}
	return
}

func C12(r *vf.Run) {
	r.Rule = "(a) cycle-factor sweep on both interpreters: a state is constructed for every opcode x (E,M,X) x DL!=0 x index page-cross x branch {not taken, taken, taken across a page} and the accounting equalities asserted, also with an interrupt request pending on entry (cycles >= 1, AllCycles advances by exactly the returned value, stopped iff STP executed, sticky until Reset - also while the host calls every other public method and stores NMI/IRQ requests straight into the public Interrupt field); (b) twin replay of System.RunUntil against a literal single-stepping specification over generated (program, target, budget) cases, comparing state, AllCycles, memory, return value and Logger.Write count; (c) OnPC callbacks counted against instruction fetches at their address - on fresh CPUs and on one reused CPU whose callback set is moved, replaced, grown, shrunk and self-re-armed between runs - and OnWDM operand on both interpreters. A cell is (opcode, E, M, X, DL, page-cross, branch outcome) for (a) and (stop reason, budget class, target class) for (b)"
	r.Assume = []string{"cpualt declares OnPC but implements no program-counter callback and has no RunUntil: judged on Step accounting and OnWDM only", "termination is decided on logical counts (iterations <= budget), never on wall-clock time"}
	ncpu := runtime.NumCPU()
	var zeroCycle int32

	// budgets beyond the 32-bit limits: one RunUntil call that consumes more than 2^31 / 2^32 cycles (a
	// program that calls itself for ever, 8 cycles a step, the target out of reach). These run beside the
	// other phases and are joined at the end; a memory device that counts its reads bounds them logically.
	var huge sync.WaitGroup
	if r.Phase("huge-budgets") {
		budgets := []uint64{1<<31 + 3, 1<<32 + 3}
		if runtime.GOARCH == "386" {
			budgets = budgets[:1] // (the width of the counters in question does not depend on the target)
		}
		for _, budget := range budgets {
			huge.Add(1)
			go func(budget uint64) {
				defer huge.Done()
				s := new(emulator.System)
				fm := &fastMem{data: make([]byte, 1<<24), limit: int64(budget/8+64) * 4}
				if err := s.Bus.Attach(fm, "ram", 0, 0xFFFFFF); err != nil {
					panic(err)
				}
				s.CPU.Init(&s.Bus)
				// $12:3456: JSL $123456
				copy(fm.data[0x123456:], []byte{0x22, 0x56, 0x34, 0x12})
				s.CPU.RK, s.CPU.PC, s.CPU.SP = 0x12, 0x3456, 0x01FF
				s.CPU.E, s.CPU.M, s.CPU.X = 0, 1, 1
				var ret bool
				pan := vf.Try(func() { ret = s.RunUntil(0x7E0000, budget) })
				r.Eval(int64(s.CPU.AllCycles / 8))
				want := (budget + 7) / 8 * 8
				switch {
				case pan != nil:
					if _, ok := pan.(mem.LimitExceeded); ok {
						r.Fail("rununtil-does-not-return", fmt.Sprintf("RunUntil(target out of reach, budget %d): still executing after %d cycles (%d instruction fetches)", budget, s.CPU.AllCycles, fm.reads/4), nil)
					} else {
						r.Fail("rununtil-panics", fmt.Sprintf("RunUntil(budget %d) panicked after %d cycles: %v", budget, s.CPU.AllCycles, pan), nil)
					}
				case ret || s.CPU.AllCycles != want:
					r.Fail("rununtil-huge-budget", fmt.Sprintf("RunUntil(target out of reach, budget %d) over 8-cycle instructions returned %v after %d cycles, want false after %d", budget, ret, s.CPU.AllCycles, want), nil)
				default:
					r.Cell(fmt.Sprintf("huge-budget:2^%d", map[bool]int{true: 31, false: 32}[budget < 1<<32]))
				}
			}(budget)
		}
	}

	if r.Phase("cycle-sweep") {
		variants := r.N(2, 100)
		r.Parallel(ncpu, 256, func(wi, opi int) {
			op := byte(opi)
			w := newDiffWorker(r)
			defer w.flush()
			g := r.Rand("sweep").Fork(uint64(opi))
			mode := ref.Table[op].Mode
			indexed := mode == ref.AbsX || mode == ref.AbsY || mode == ref.DpIndY
			isRel8 := mode == ref.Rel8
			for _, emx := range [][2]byte{{0, 0}, {0, 1}, {0, 2}, {0, 3}, {1, 3}} {
				for dl := 0; dl < 2; dl++ {
					for pc := 0; pc < 2; pc++ {
						if pc == 1 && !indexed {
							continue
						}
						for br := 0; br < 3; br++ {
							if br > 0 && !isRel8 {
								continue
							}
							for v := 0; v < variants; v++ {
								var s ref.State
								var img *mem.Image
								ok := false
								for try := 0; try < 60 && !ok; try++ {
									s, img = modeState(g, op, emx[0] == 1, emx[1], byte(g.Intn(2)))
									if dl == 0 {
										s.D &= 0xFF00
									} else if s.D&0xFF == 0 {
										s.D |= uint16(1 + g.Intn(255))
									}
									k := uint32(s.K) << 16
									if isRel8 {
										// choose the displacement for the wanted page relation, flags at random
										if br == 2 {
											s.PC = uint16(g.Intn(256))<<8 | 0xF0 | uint16(g.Intn(14))
											img.Ov = map[uint32]byte{k | uint32(s.PC): op, k | uint32(s.PC+1): 0x20}
										} else {
											s.PC = uint16(g.Intn(256))<<8 | 0x40
											img.Ov = map[uint32]byte{k | uint32(s.PC): op, k | uint32(s.PC+1): byte(g.Intn(0x20))}
										}
									}
									if indexed && mode != ref.DpIndY {
										reg := &s.X
										if mode == ref.AbsY {
											reg = &s.Y
										}
										lo := img.Peek(k | uint32(s.PC+1))
										if pc == 1 {
											*reg = uint16(0x100-int(lo)) + uint16(g.Intn(3))
										} else {
											*reg = uint16(g.Intn(0x100 - int(lo)))
										}
										if s.P&0x10 != 0 {
											*reg &= 0xFF
										}
									}
									if mode == ref.DpIndY {
										p := s.D + uint16(img.Peek(k|uint32(s.PC+1)))
										img.Ov[uint32(p)] = 0x80
										img.Ov[uint32(p+1)] = g.U8()
										if pc == 1 {
											s.Y = 0x80 + uint16(g.Intn(0x7F))
										} else {
											s.Y = uint16(g.Intn(0x7F))
										}
									}
									_, gotPc, _, gotTaken, gotB := cycleFactors(s, img)
									ok = gotPc == (pc == 1) && (!isRel8 || (br == 0 && !gotTaken) || (br == 1 && gotTaken && !gotB) || (br == 2 && gotTaken && gotB))
									if ok && img.Peek(uint32(s.K)<<16|uint32(s.PC)) != op {
										ok = false
									}
								}
								if !ok {
									continue // infeasible combination (e.g. BRA not taken)
								}
								mp, ma := img.Clone(), img.Clone()
								w.rig.loadPrim(s, v%2 == 1, g)
								w.rig.loadAltFromPrim()
								a0 := g.U64() >> uint(g.Intn(40))
								if g.Intn(4) == 0 {
									// the running total is a public 64-bit counter: any value is a start state,
									// including those a few cycles below a power-of-two limit
									lim := []uint64{1 << 16, 1 << 31, 1 << 32, 1 << 53, 1 << 63, 0}[g.Intn(6)]
									a0 = lim - uint64(g.Intn(14))
								}
								w.rig.prim.AllCycles, w.rig.alt.AllCycles = a0, a0
								irq := ""
								if v%4 == 3 || (variants < 4 && g.Intn(4) == 0) {
									// an interrupt request is pending when Step is entered (TriggerIRQ / NMI)
									kind := byte(2 + g.Intn(2))
									w.rig.prim.Interrupt, w.rig.alt.Interrupt = kind, kind
									irq = ":irq-pending"
								}
								rp := w.rig.stepPrim(mp)
								ra := w.rig.stepAlt(ma)
								r.Eval(2)
								cell := fmt.Sprintf("op%02x:e%d:mx%d:dl%d:pc%d:br%d", op, emx[0], emx[1], dl, pc, br)
								for _, side := range []struct {
									who       string
									res       stepRes
									all       uint64
									cyc       byte
									stoppedFl bool
								}{{"cpu65c816", rp, w.rig.prim.AllCycles, w.rig.prim.Cycles, w.rig.prim.Stopped}, {"cpualt", ra, w.rig.alt.AllCycles, w.rig.alt.Cycles, w.rig.alt.Stopped}} {
									if side.res.pan != nil {
										continue // C08's concern
									}
									det := func() interface{} {
										return describeCase(s, false, img, ref.Info{Op: op, M: ref.Table[op].M, Mode: mode})
									}
									if side.res.cycles < 1 {
										atomic.StoreInt32(&zeroCycle, 1)
										r.Fail("cycles<1:"+side.who, fmt.Sprintf("%s: Step of %s reported %d cycles (%s)", side.who, opName(op), side.res.cycles, cell), det())
									}
									if side.all != a0+uint64(side.res.cycles) {
										r.Fail("allcycles-accounting:"+side.who, fmt.Sprintf("%s: %s returned %d cycles but AllCycles went %d -> %d (%s)", side.who, opName(op), side.res.cycles, a0, side.all, cell), det())
									}
									wantStop := op == 0xDB && irq == "" // with an interrupt serviced first another instruction runs
									if irq == "" && (side.res.stopped != wantStop || side.stoppedFl != wantStop) {
										r.Fail("stopped-flag:"+side.who, fmt.Sprintf("%s: after %s Step stopped=%v CPU.Stopped=%v", side.who, opName(op), side.res.stopped, side.stoppedFl), det())
									}
								}
								w.cells[cell]++
								if irq != "" {
									w.cells["accounting:irq-pending"]++
								}
							}
						}
					}
				}
			}
		})
		r.Sample(map[string]interface{}{"cell": "opbd:e0:mx0:dl1:pc1:br0", "meaning": "LDA abs,X native 16-bit, DL!=0, index crosses a page"})
	}

	if r.Phase("stop-sticky") {
		// stopped is reported from the STP on, and never before, until Reset
		r.Parallel(ncpu, 64, func(wi, ci int) {
			w := newDiffWorker(r)
			defer w.flush()
			g := r.Rand("stp").Fork(uint64(ci))
			for i := 0; i < r.N(20, 2000); i++ {
				s := genState(g)
				if g.Intn(3) == 0 {
					s = genEmuState(g)
				}
				s.PC = uint16(0x1000 + g.Intn(0x6000)) // stays clear of the reset target at $00:9000 and the vector
				s.S = 0x01FF
				img := mem.New(g.U64())
				depth := g.Intn(12)
				k := uint32(s.K) << 16
				for j := 0; j < depth; j++ {
					img.Ov[k|uint32(s.PC)+uint32(j)] = []byte{0xEA, 0xE8, 0xC8, 0x1A, 0x18, 0x38, 0xAA, 0xA8}[g.Intn(8)]
				}
				img.Ov[k|uint32(s.PC)+uint32(depth)] = 0xDB
				for j := 1; j < 6; j++ {
					img.Ov[k|uint32(s.PC)+uint32(depth+j)] = 0xEA
				}
				img.Ov[0xFFFC], img.Ov[0xFFFD] = 0x00, 0x90
				img.Ov[0x9000] = 0xEA
				mp, ma := img.Clone(), img.Clone()
				w.rig.loadPrim(s, false, g)
				w.rig.loadAltFromPrim()
				for _, side := range []string{"cpu65c816", "cpualt"} {
					step := func() stepRes {
						if side == "cpu65c816" {
							return w.rig.stepPrim(mp)
						}
						return w.rig.stepAlt(ma)
					}
					bad := false
					var called []string
					for j := 0; j < depth+4 && !bad; j++ {
						res := step()
						want := j >= depth
						if res.pan == nil && res.stopped != want {
							r.Fail("stopped-sticky:"+side, fmt.Sprintf("%s: step %d of a program with STP at depth %d returned stopped=%v (methods called on the stopped CPU in between: %v)", side, j, depth, res.stopped, called), nil)
							bad = true
						}
						if want && i%2 == 1 {
							// the host goes on using the stopped CPU's other methods: none of them is a reset
							skip := map[string]bool{"Reset": true, "Init": true, "InitFrom": true, "Step": true}
							if side == "cpu65c816" {
								w.rig.bm.M = mp
								called = append(called, callNonResetMethods(&w.rig.prim, skip, g)...)
							} else {
								w.rig.am = ma
								called = append(called, callNonResetMethods(w.rig.alt, skip, g)...)
							}
							w.cells["stp:other-methods-called-while-stopped"]++
						}
						if want && i%3 == 2 && g.Intn(2) == 0 {
							// a request stored straight into the public Interrupt field (NMI is 2, IRQ 3; there is
							// no TriggerNMI method): being delivered an interrupt is no reset either
							kind := []byte{2, 3, 2, 1}[g.Intn(4)]
							if side == "cpu65c816" {
								w.rig.prim.Interrupt = kind
							} else {
								w.rig.alt.Interrupt = kind
							}
							called = append(called, fmt.Sprintf("Interrupt=%d", kind))
							w.cells[fmt.Sprintf("stp:interrupt-field-%d-while-stopped", kind)]++
						}
					}
					if side == "cpu65c816" {
						w.rig.bm.M = mp
						w.rig.prim.Reset()
						if w.rig.prim.Stopped {
							r.Fail("reset-keeps-stopped:"+side, "Reset left Stopped set", nil)
						}
					} else {
						w.rig.am = ma
						w.rig.alt.Reset()
						if w.rig.alt.Stopped {
							r.Fail("reset-keeps-stopped:"+side, "Reset left Stopped set", nil)
						}
					}
					irq := false
					for _, n := range called {
						irq = irq || n == "TriggerIRQ" || strings.HasPrefix(n, "Interrupt=") // (the first Step then enters a handler whose code is arbitrary)
					}
					if res := step(); res.pan == nil && res.stopped && !irq {
						r.Fail("stopped-after-reset:"+side, side+": first Step after Reset (a NOP) still reports stopped", nil)
					}
					r.Eval(1)
				}
				if i%4 == 3 {
					// the same through an emulator.System: its own methods (SetPC, GetPC, whatever else it has)
					// are no reset either
					S := getSysRig()
					ms := img.Clone()
					S.load(s, false, g, ms)
					stopped := false
					var called []string
					for j := 0; j < depth+6; j++ {
						var st bool
						if pan := vf.Try(func() { _, st = S.s.CPU.Step() }); pan != nil {
							break
						}
						if stopped && !st {
							r.Fail("stopped-sticky:system", fmt.Sprintf("a System's CPU executed STP, then %v were called on the System, and Step reports stopped=false", called), nil)
							break
						}
						if st {
							stopped = true
							called = append(called, callNonResetMethods(S.s, map[string]bool{"CreateEmulator": true, "RunUntil": true}, g)...)
							w.cells["stp:system-methods-called-while-stopped"]++
						}
					}
					putSysRig(S)
				}
				w.cells[fmt.Sprintf("stp-depth:%d", depth)]++
			}
		})
	}

	if r.Phase("rununtil-twin") {
		if atomic.LoadInt32(&zeroCycle) != 0 {
			r.SetExtra("rununtil_skipped", "a Step reported 0 cycles: RunUntil could spin, violation reported from the sweep")
		} else {
			n := r.N(4800, 1920000)
			chunks := 96
			r.Parallel(min(ncpu, 8), chunks, func(wi, ci int) {
				A, B := getSysRig(), getSysRig()
				defer putSysRig(A)
				defer putSysRig(B)
				g := r.Rand("run").Fork(uint64(ci))
				cells := map[string]int64{}
				for i := 0; i < n/chunks && !r.TooMany(); i++ {
					s := genState(g)
					if g.Intn(4) == 0 {
						s = genEmuState(g)
					}
					img := mem.New(g.U64())
					kind := g.Intn(4)
					k := uint32(s.K) << 16
					switch kind {
					case 0, 1:
						genProgram(g, &s, img, 30+g.Intn(60))
					case 2: // tight loop: DEX / BNE -3 / NOP ...
						s.PC = uint16(0x1000 + g.Intn(0xE000))
						s.X = uint16(1 + g.Intn(20))
						img.Ov[k|uint32(s.PC)] = 0xCA
						img.Ov[k|uint32(s.PC+1)] = 0xD0
						img.Ov[k|uint32(s.PC+2)] = 0xFD
						for j := uint16(3); j < 12; j++ {
							img.Ov[k|uint32(s.PC+j)] = 0xEA
						}
					default: // straight NOP/INX run ending in STP
						s.PC = uint16(0x1000 + g.Intn(0xE000))
						nn := uint16(g.Intn(30))
						for j := uint16(0); j < nn; j++ {
							img.Ov[k|uint32(s.PC+j)] = []byte{0xEA, 0xE8, 0xC8, 0x42}[g.Intn(4)]
						}
						img.Ov[k|uint32(s.PC+nn)] = 0xDB
					}
					stale := g.Intn(3) == 0
					// reference trajectory on B to pick targets / budgets
					mb := img.Clone()
					mb.NoRdSet = true
					B.load(s, stale, g, mb)
					var pcs []uint32
					var cum []uint64
					tot := uint64(0)
					crashed := false
					for j := 0; j < 60; j++ {
						pcs = append(pcs, B.s.GetPC())
						var c int
						if pan := vf.Try(func() { c, _ = B.s.CPU.Step() }); pan != nil {
							crashed = true
							break
						}
						tot += uint64(c)
						cum = append(cum, tot)
					}
					if crashed || len(cum) == 0 {
						continue
					}
					var target uint32
					tclass := ""
					switch g.Intn(6) {
					case 5: // an address one bit away from one the program reaches (mirror banks, neighbouring pages)
						j := g.Intn(len(pcs))
						target, tclass = pcs[j]^(1<<uint(g.Intn(24))), "one-bit-off"
						if g.Bool() {
							target = pcs[j] ^ 0x800000
						}
					case 0:
						target, tclass = pcs[0], "already-there"
					case 1:
						j := 1 + g.Intn(len(pcs)-1)
						target, tclass = pcs[j], "reachable"
					case 2:
						j := g.Intn(len(pcs))
						target, tclass = pcs[j]^uint32(1+g.Intn(255))<<16, "other-bank"
					case 3:
						target, tclass = uint32(g.U32())&0xFFFFFF, "random"
					default:
						target, tclass = pcs[len(pcs)-1], "late"
					}
					if g.Intn(12) == 0 {
						// a 32-bit value that is no bus address (some bit above 23 set): the program counter can
						// never equal it, although its low 24 bits may be a place the program visits
						target, tclass = target|uint32(1+g.Intn(255))<<24, "beyond-24-bits"
					}
					var budget uint64
					bclass := ""
					switch g.Intn(6) {
					case 0:
						budget, bclass = 0, "zero"
					case 1:
						budget, bclass = 1, "one"
					case 2:
						budget, bclass = cum[0]+uint64(g.Intn(3))-1, "first+-1"
					case 3:
						j := g.Intn(len(cum))
						budget, bclass = cum[j]+uint64(g.Intn(3))-1, "prefix+-1"
					case 4:
						budget, bclass = uint64(g.Intn(200)), "small"
					default:
						budget, bclass = 100000, "large"
					}
					// A: the real RunUntil with a counting logger (or none)
					ma := img.Clone()
					ma.NoRdSet = true
					A.load(s, stale, g, ma)
					var cw *countWriter
					var commitAct func(c *cpu65c816.CPU)
					switch g.Intn(3) {
					case 0:
						A.s.Logger = nil
					case 1:
						cw = &countWriter{}
						A.s.Logger = cw
					default:
						rw := &reserveWriter{}
						cw = &rw.countWriter
						A.s.Logger = rw
						if g.Intn(3) == 0 {
							// a front-end whose Commit acts on the machine (rewinds it to where the frame began,
							// parks it on the breakpoint): what RunUntil reports is about the PC it leaves behind
							to := pcs[g.Intn(len(pcs))]
							if g.Bool() {
								to = target
							}
							commitAct = func(c *cpu65c816.CPU) { c.RK, c.PC = byte(to>>16), uint16(to) }
							rw.onCommit = func() { commitAct(&A.s.CPU) }
						}
					}
					// callbacks that act on the CPU they are attached to (a host-side hook skipping or
					// replacing a routine, raising an interrupt, patching a flag, a one-shot breakpoint):
					// the same plan on both sides
					var plan []hookPlan
					if g.Intn(3) == 0 {
						for h := 1 + g.Intn(3); h > 0; h-- {
							hp := hookPlan{at: pcs[g.Intn(len(pcs))], kind: g.Intn(6), to: pcs[g.Intn(len(pcs))]}
							if g.Intn(3) == 0 && len(plan) > 0 {
								// hooks redirecting to each other's address
								hp.kind, hp.to = 0, plan[len(plan)-1].at
								plan[len(plan)-1].kind, plan[len(plan)-1].to = 0, hp.at
							}
							plan = append(plan, hp)
						}
					}
					pendingAtEntry := 0
					if g.Intn(6) == 0 {
						pendingAtEntry = 1 + g.Intn(2) // an interrupt is already requested when the run starts
					}
					installHooks(&A.s.CPU, plan, pendingAtEntry, int(budget)+64)
					ma.Limit = (int(budget) + 64) * 24
					var ret bool
					pan := vf.Try(func() { ret = A.s.RunUntil(target, budget) })
					ma.Limit = 0
					A.s.CPU.OnPC = nil
					if le, ok := pan.(mem.LimitExceeded); ok {
						r.Fail("rununtil-does-not-return", fmt.Sprintf("RunUntil($%06x, %d) was still running after %d bus reads / callback invocations (negative: callbacks); every instruction consumes at least one cycle, reads at most a dozen bytes and runs at most one callback; callbacks: %v", target, budget, le.Reads, plan), map[string]interface{}{"start": s.String(), "image_seed": img.Seed, "callbacks": fmt.Sprint(plan)})
						continue
					}
					// B: the specification, literally
					mb = img.Clone()
					mb.NoRdSet = true
					B.load(s, stale, g, mb)
					B.s.Logger = nil
					installHooks(&B.s.CPU, plan, pendingAtEntry, 0)
					consumed, iters, steps := uint64(0), 0, 0
					reason := "budget"
					var bpan interface{}
					for consumed < budget {
						iters++
						if B.s.GetPC() == target {
							reason = "target"
							break
						}
						var c int
						if bpan = vf.Try(func() { c, _ = B.s.CPU.Step() }); bpan != nil {
							break
						}
						steps++
						consumed += uint64(c)
						if c < 1 {
							r.Fail("step-zero-cycles-with-callbacks", fmt.Sprintf("Step reported %d cycles at $%06x with callbacks %v registered", c, B.s.GetPC(), plan), nil)
							break
						}
						if iters > int(budget)+2 {
							r.Fail("spec-loop-overrun", "more iterations than cycles", nil)
							break
						}
					}
					B.s.CPU.OnPC = nil
					if commitAct != nil && bpan == nil {
						commitAct(&B.s.CPU) // (the specification commits the trace after the loop, before it answers)
						cells["run:commit-acts-on-the-cpu"]++
					}
					r.Eval(1)
					det := func() interface{} {
						return map[string]interface{}{"start": s.String(), "image_seed": img.Seed, "overlay_bytes": len(img.Ov), "target": fmt.Sprintf("$%06x", target), "budget": budget, "program_kind": kind, "spec_steps": steps, "spec_stop": reason, "callbacks": fmt.Sprint(plan), "interrupt_pending_at_entry": pendingAtEntry}
					}
					if len(plan) > 0 {
						cells["run:with-acting-callbacks"]++
					}
					if pendingAtEntry > 0 {
						cells["run:interrupt-pending-at-entry:"+tclass]++
					}
					if (pan != nil) != (bpan != nil) {
						r.Fail("rununtil-panic-parity", fmt.Sprintf("RunUntil panic=%v, single-stepping panic=%v", pan, bpan), det())
						continue
					}
					if pan != nil {
						continue
					}
					wantRet := B.s.GetPC() == target
					sa, sb := absPrim(&A.s.CPU), absPrim(&B.s.CPU)
					switch {
					case len(diffState(sa, sb)) > 0:
						key := "rununtil-state"
						if B.s.CPU.AllCycles < A.s.CPU.AllCycles {
							key = "rununtil-overruns-" + reason
						} else if B.s.CPU.AllCycles > A.s.CPU.AllCycles {
							key = "rununtil-stops-early"
						}
						r.Fail(key, fmt.Sprintf("RunUntil($%06x, %d) ended in {%v} after %d cycles; stepping while consumed<budget and PC!=target ends in {%v} after %d cycles (%d steps, stop=%s)", target, budget, sa, A.s.CPU.AllCycles, sb, B.s.CPU.AllCycles, steps, reason), det())
					case A.s.CPU.AllCycles != B.s.CPU.AllCycles:
						r.Fail("rununtil-allcycles", fmt.Sprintf("RunUntil consumed %d cycles, specification %d", A.s.CPU.AllCycles, B.s.CPU.AllCycles), det())
					case ret != wantRet:
						r.Fail("rununtil-return", fmt.Sprintf("RunUntil($%06x, %d) returned %v with PC=$%06x", target, budget, ret, A.s.GetPC()), det())
					default:
						if a, same := mem.SameWrites(ma, mb); !same {
							r.Fail("rununtil-memory", fmt.Sprintf("memory differs at $%06x", a), det())
						}
					}
					if cw != nil && cw.writes != steps {
						r.Fail("rununtil-iterations", fmt.Sprintf("RunUntil($%06x, %d) logged %d instructions, the specification executes %d (stop=%s)", target, budget, cw.writes, steps, reason), det())
					}
					if rw, ok := A.s.Logger.(*reserveWriter); ok && rw.commits != 1 {
						r.Fail("rununtil-commit", fmt.Sprintf("Committer.Commit called %d times", rw.commits), det())
					}
					cells[fmt.Sprintf("run:%s:%s:%s", reason, bclass, tclass)]++
					if ci == 0 && i < 2 {
						r.Sample(det())
					}
				}
				r.MergeCells(cells)
			})
		}
	}

	if r.Phase("callbacks") {
		n := r.N(800, 80000)
		chunks := 80
		r.Parallel(ncpu, chunks, func(wi, ci int) {
			w := newDiffWorker(r)
			defer w.flush()
			g := r.Rand("cb").Fork(uint64(ci))
			for i := 0; i < n/chunks && !r.TooMany(); i++ {
				s := genState(g)
				if g.Intn(4) == 0 {
					s = genEmuState(g)
				}
				img := mem.New(g.U64())
				genProgram(g, &s, img, 40+g.Intn(60))
				// sprinkle WDMs with known operands
				k := uint32(s.K) << 16
				for j := 0; j < 6; j++ {
					o := uint16(g.Intn(60))
					img.Ov[k|uint32(s.PC+o)] = 0x42
				}
				// dry run to learn the visited addresses
				mp := img.Clone()
				mp.NoRdSet = true
				w.rig.loadPrim(s, false, g)
				var visited []uint32
				for j := 0; j < 80; j++ {
					visited = append(visited, uint32(w.rig.prim.RK)<<16|uint32(w.rig.prim.PC))
					if res := w.rig.stepPrim(mp); res.pan != nil || res.stopped {
						break
					}
				}
				// register callbacks
				hooks := map[uint32]*[]int{}
				addrs := []uint32{visited[0], visited[g.Intn(len(visited))], visited[len(visited)-1], visited[g.Intn(len(visited))] ^ 0x010000, g.U32() & 0xFFFFFF}
				mp = img.Clone()
				mp.KeepLog = true
				mp.NoRdSet = true
				w.rig.loadPrim(s, false, g)
				w.rig.loadAltFromPrim()
				w.rig.prim.OnPC = map[uint32]func(){}
				stepNo := 0
				for _, a := range addrs {
					a := a
					rec := &[]int{}
					hooks[a] = rec
					w.rig.prim.OnPC[a] = func() {
						*rec = append(*rec, stepNo)
						// must run before the opcode fetch of this step: nothing read yet in this step
						if len(mp.Log) != 0 {
							r.Fail("onpc-after-fetch", fmt.Sprintf("OnPC($%06x) ran after %d bus accesses of the step", a, len(mp.Log)), nil)
						}
					}
				}
				var wdmP, wdmA []byte
				// a handler may take a savestate of its CPU while it runs (a copy of the struct, or InitFrom):
				// the copy is a CPU like any other - stepped later, it traps on the WDM it was taken at
				var snapP *cpu65c816.CPU
				var snapA *cpualt.CPU
				takeSnap := g.Intn(3) == 0
				w.rig.prim.OnWDM = func(b byte) {
					wdmP = append(wdmP, b)
					if takeSnap && snapP == nil {
						snapP = new(cpu65c816.CPU)
						if b&1 == 0 {
							*snapP = w.rig.prim
						} else {
							snapP.InitFrom(&w.rig.prim, w.rig.prim.Bus)
						}
					}
				}
				w.rig.alt.OnWDM = func(b byte) {
					wdmA = append(wdmA, b)
					if takeSnap && snapA == nil {
						snapA = new(cpualt.CPU)
						snapA.InitFrom(w.rig.alt) // (a cpualt.CPU holds closures over itself: InitFrom is its way of being copied)
					}
				}
				ma := img.Clone()
				ma.NoRdSet = true
				want := map[uint32][]int{}
				var wantWDM []byte
				for stepNo = 0; stepNo < 80; stepNo++ {
					at := uint32(w.rig.prim.RK)<<16 | uint32(w.rig.prim.PC)
					if _, ok := hooks[at]; ok {
						want[at] = append(want[at], stepNo)
					}
					if mp.Peek(at) == 0x42 {
						wantWDM = append(wantWDM, mp.Peek(uint32(w.rig.prim.RK)<<16|uint32(w.rig.prim.PC+1)))
					}
					mp.Log = mp.Log[:0]
					rp := w.rig.stepPrim(mp)
					ra := w.rig.stepAlt(ma)
					if rp.pan != nil || ra.pan != nil || rp.stopped {
						stepNo++
						break
					}
				}
				r.Eval(1)
				for a, rec := range hooks {
					if fmt.Sprint(*rec) != fmt.Sprint(want[a]) && !(len(*rec) == 0 && len(want[a]) == 0) {
						r.Fail("onpc-count", fmt.Sprintf("OnPC($%06x) ran at steps %v, instructions were fetched there at steps %v", a, *rec, want[a]), map[string]interface{}{"start": s.String(), "image_seed": img.Seed})
					}
					if len(want[a]) > 0 {
						w.cells["onpc:hit"]++
					} else {
						w.cells["onpc:never"]++
					}
				}
				if string(wdmP) != string(wantWDM) {
					r.Fail("onwdm:cpu65c816", fmt.Sprintf("OnWDM received % x, WDM operands executed % x", wdmP, wantWDM), nil)
				}
				if string(wdmA) != string(wantWDM) {
					r.Fail("onwdm:cpualt", fmt.Sprintf("OnWDM received % x, WDM operands executed % x", wdmA, wantWDM), nil)
				}
				if len(wantWDM) > 0 {
					w.cells["onwdm:seen"]++
				}
				if snapP != nil && snapA != nil {
					// step the savestates: each sits on the WDM it was taken at
					var gotP, gotA []byte
					snapP.OnWDM = func(b byte) { gotP = append(gotP, b) }
					snapA.OnWDM = func(b byte) { gotA = append(gotA, b) }
					snapP.OnPC = nil
					wantOp := mp.Peek(uint32(snapP.RK)<<16 | uint32(snapP.PC+1))
					isWDM := mp.Peek(uint32(snapP.RK)<<16|uint32(snapP.PC)) == 0x42
					save := w.rig.prim
					w.rig.prim = *snapP
					rp2 := w.rig.stepPrim(mp)
					w.rig.prim = save
					saveA := w.rig.alt
					w.rig.alt = snapA
					ra2 := w.rig.stepAlt(ma)
					w.rig.alt = saveA
					if isWDM && rp2.pan == nil && ra2.pan == nil {
						if string(gotP) != string([]byte{wantOp}) {
							r.Fail("onwdm-on-savestate:cpu65c816", fmt.Sprintf("a copy of the CPU taken inside its OnWDM handler, stepped on the WDM #$%02x it was taken at: its handler received % x", wantOp, gotP), nil)
						}
						if string(gotA) != string([]byte{wantOp}) {
							r.Fail("onwdm-on-savestate:cpualt", fmt.Sprintf("a copy of the CPU taken inside its OnWDM handler, stepped on the WDM #$%02x it was taken at: its handler received % x", wantOp, gotA), nil)
						}
						w.cells["onwdm:savestate-taken-inside-handler"]++
					}
				}
				w.rig.prim.OnPC, w.rig.prim.OnWDM, w.rig.alt.OnWDM = nil, nil, nil
			}
		})
	}
	if r.Phase("callbacks-reused-cpu") {
		// one CPU instance stepped through several runs while the set of registered OnPC
		// callbacks changes between (and during) runs: same size / different keys, replaced map,
		// grown, shrunk, a callback that re-arms itself further ahead
		n := r.N(800, 80000)
		chunks := 80
		r.Parallel(ncpu, chunks, func(wi, ci int) {
			w := newDiffWorker(r)
			defer w.flush()
			g := r.Rand("cb2").Fork(uint64(ci))
			for i := 0; i < n/chunks && !r.TooMany(); i++ {
				s := genState(g)
				s.PC = uint16(0x1000 + g.Intn(0x8000))
				s.S = 0x01FF
				img := mem.New(g.U64())
				k := uint32(s.K) << 16
				// a sled of one-byte instructions, looping back with BRA so addresses are revisited
				sled := 24 + g.Intn(40)
				for j := 0; j < sled; j++ {
					img.Ov[k|uint32(s.PC)+uint32(j)] = []byte{0xEA, 0xE8, 0xC8, 0x1A, 0x18}[g.Intn(5)]
				}
				img.Ov[k|uint32(s.PC)+uint32(sled)] = 0x80
				img.Ov[k|uint32(s.PC)+uint32(sled)+1] = byte(0x100 - sled - 2)
				mp := img.Clone()
				mp.NoRdSet = true
				w.rig.loadPrim(s, false, g) // the only Init of this history
				c := &w.rig.prim
				w.rig.bm.M = mp
				registered := map[uint32]bool{}
				got := map[uint32]int{}
				want := map[uint32]int{}
				c.OnPC = map[uint32]func(){}
				var hist []string
				addrAt := func(j int) uint32 { return k | uint32(s.PC+uint16(j%sled)) }
				var reg func(a uint32)
				reg = func(a uint32) {
					registered[a] = true
					c.OnPC[a] = func() { got[a]++ }
				}
				regRearm := func(a uint32, ahead int) {
					registered[a] = true
					c.OnPC[a] = func() {
						got[a]++
						// one-shot breakpoint that re-arms itself further ahead (count stays the same)
						delete(c.OnPC, a)
						delete(registered, a)
						nx := k | uint32(uint16(a)+uint16(ahead))
						if uint16(nx)-s.PC < uint16(sled) && !registered[nx] {
							reg(nx)
						}
					}
				}
				ncb := 1 + g.Intn(3)
				if g.Intn(5) == 0 {
					ncb = 40 + g.Intn(60) // more callbacks than a small bit-mask or fixed table could index
				}
				for j := 0; j < ncb; j++ {
					if j < sled {
						reg(addrAt(g.Intn(sled)))
					} else {
						reg(g.U32() & 0xFFFFFF) // never fetched
					}
				}
				if ncb >= 40 {
					w.cells["reuse:many-callbacks"]++
				}
				if g.Intn(3) == 0 {
					a := addrAt(g.Intn(sled))
					regRearm(a, 1+g.Intn(9))
					hist = append(hist, fmt.Sprintf("rearming breakpoint at $%06x", a))
				}
				runs := 2 + g.Intn(4)
				okAll := true
				for run := 0; run < runs && okAll; run++ {
					steps := 5 + g.Intn(2*sled)
					for st := 0; st < steps; st++ {
						at := uint32(c.RK)<<16 | uint32(c.PC)
						if registered[at] {
							want[at]++
						}
						if res := w.rig.stepPrim(mp); res.pan != nil {
							break
						}
					}
					for a, n := range want {
						if got[a] != n {
							r.Fail("onpc-count-after-reregistration", fmt.Sprintf("run %d on a reused CPU: OnPC($%06x) ran %d times, %d instructions were fetched there while it was registered; history: %v", run, a, got[a], n, hist), map[string]interface{}{"start": s.String(), "sled": sled})
							okAll = false
							break
						}
					}
					for a, n := range got {
						if want[a] != n && okAll {
							r.Fail("onpc-count-after-reregistration", fmt.Sprintf("run %d on a reused CPU: OnPC($%06x) ran %d times but should have run %d times; history: %v", run, a, n, want[a], hist), nil)
							okAll = false
						}
					}
					// change the key set between runs
					keys := make([]uint32, 0, len(registered))
					for a := range registered {
						keys = append(keys, a)
					}
					switch mut := g.Intn(5); {
					case mut == 0 && len(keys) > 0: // move one breakpoint: same count, different key
						old := keys[g.Intn(len(keys))]
						delete(c.OnPC, old)
						delete(registered, old)
						nw := addrAt(g.Intn(sled))
						reg(nw)
						hist = append(hist, fmt.Sprintf("moved $%06x->$%06x", old, nw))
						w.cells["reuse:moved-same-count"]++
					case mut == 1: // replace the whole map by one of equal size
						nm := map[uint32]func(){}
						c.OnPC = nm
						cnt := len(registered)
						for a := range registered {
							delete(registered, a)
						}
						for j := 0; j < cnt; j++ {
							reg(addrAt(g.Intn(sled)))
						}
						hist = append(hist, fmt.Sprintf("replaced map (%d keys)", cnt))
						w.cells["reuse:map-replaced"]++
					case mut == 2:
						nw := addrAt(g.Intn(sled))
						reg(nw)
						hist = append(hist, fmt.Sprintf("added $%06x", nw))
						w.cells["reuse:grown"]++
					case mut == 3 && len(keys) > 0:
						old := keys[g.Intn(len(keys))]
						delete(c.OnPC, old)
						delete(registered, old)
						hist = append(hist, fmt.Sprintf("removed $%06x", old))
						w.cells["reuse:shrunk"]++
					default:
						w.cells["reuse:unchanged"]++
					}
				}
				r.Eval(1)
				c.OnPC = nil
			}
		})
	}
	huge.Wait()
	if r.OnlyPhase == "" {
		for _, c := range []string{"reuse:moved-same-count", "reuse:map-replaced", "reuse:grown", "reuse:shrunk", "reuse:many-callbacks"} {
			r.Require(c)
		}
		for op := 0; op < 256; op++ {
			br := 0
			if op == 0x80 { // BRA is always taken
				br = 1
			}
			r.Require(fmt.Sprintf("op%02x:e0:mx0:dl1:pc0:br%d", op, br))
			r.Require(fmt.Sprintf("op%02x:e1:mx3:dl0:pc0:br%d", op, br))
		}
		for _, c := range []string{"opbd:e0:mx3:dl0:pc1:br0", "opb1:e0:mx3:dl1:pc1:br0", "opd0:e0:mx0:dl0:pc0:br2", "opd0:e1:mx3:dl0:pc0:br1", "onpc:hit", "onpc:never", "onwdm:seen", "accounting:irq-pending"} {
			r.Require(c)
		}
		for _, s := range []string{"run:target:", "run:budget:", ":zero:", ":one:", ":already-there", ":other-bank", ":first+-1:", ":prefix+-1:"} {
			r.RequireSub(s)
		}
	}
}
