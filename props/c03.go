package props

import (
	"bytes"
	"fmt"
	"reflect"
	"runtime"
	"strings"

	"github.com/alttpo/snes/asm"

	"verif/internal/mem"
	"verif/internal/ref"
	"verif/internal/vf"
)

func init() { reg("C03", C03) }

// fastCall returns a closure invoking method m on e with a 32-bit argument, without per-call reflection.
func fastCall(e *asm.Emitter, m *emMethod) func(arg uint32) {
	f := reflect.ValueOf(e).MethodByName(m.Name).Interface()
	switch m.Arg {
	case aNone:
		fn := f.(func())
		return func(uint32) { fn() }
	case aU8:
		fn := f.(func(uint8))
		return func(a uint32) { fn(uint8(a)) }
	case aI8:
		fn := f.(func(int8))
		return func(a uint32) { fn(int8(a)) }
	case aU16:
		fn := f.(func(uint16))
		return func(a uint32) { fn(uint16(a)) }
	case aU24:
		fn := f.(func(uint32))
		return func(a uint32) { fn(a) }
	case aLHB:
		fn := f.(func(uint8, uint8, uint8))
		return func(a uint32) { fn(uint8(a), uint8(a>>8), uint8(a>>16)) }
	case aLH, aBanks:
		fn := f.(func(uint8, uint8))
		return func(a uint32) { fn(uint8(a), uint8(a>>8)) }
	case aFlags:
		fn := f.(func(asm.Flags))
		return func(a uint32) { fn(asm.Flags(a)) }
	case aLabel8, aLabel16:
		fn := f.(func(string))
		return func(a uint32) { fn(fmt.Sprintf("l%x", a)) }
	}
	panic("fastCall")
}

func C03(r *vf.Run) {
	r.Rule = "every instruction-emitting method of *asm.Emitter (enumerated by reflection, matched against a hand-written method->(mnemonic, mode, operand kind, width guard) table) x every legal tracked width state x operand sweep: exhaustive for 8/16-bit operands and int8 displacements, 24-bit operands: all 2^24 in one width state and all low words x 8 banks + random in the other three (quick), all 2^24 in every state (thorough). Appended bytes are compared with an independent encoder, Len()/PC() advance with the architectural length, and the bytes are decoded back by the model decoder and (sampled) by both library CPUs (disassembly byte count + mnemonic, Step PC advance). The same law is checked for every method right after every load-then-transfer idiom, where the target buffer ends (0..size+1 free bytes: whole encoding or nothing) and re-checked inside generated call histories (what a call appends must not depend on what precedes it). A cell is (method, width state, operand class)"
	r.Assume = []string{"opcode matrix and length rule of /verif/internal/ref; the method table in /verif/props/emit.go is the 'named after' relation"}

	unmapped, missing := unmappedEmitterMethods()
	r.SetExtra("unmapped_methods", unmapped)
	r.SetExtra("methods_in_table", len(emMethods))
	if len(unmapped) > 0 {
		r.Inconclusive(fmt.Sprintf("Emitter has methods not in the monitor's table: %v", unmapped))
	}
	for _, m := range missing {
		r.Fail("method-missing:"+m, "Emitter no longer has instruction method "+m, nil)
	}
	missingSet := map[string]bool{}
	for _, m := range missing {
		missingSet[m] = true
	}
	var methods []*emMethod
	for _, m := range emMethods {
		if !missingSet[m.Name] {
			methods = append(methods, m)
		}
	}

	r.SetExtra("methods_read_from_their_names", emDiscoveredNames)
	if len(emLabelLong) > 0 && r.Phase("discovered-label-methods") {
		// methods outside the hand-written table whose name says "long address of a label": the operand
		// must be the label's full 24-bit address once Finalize has run, wherever the label lies -
		// before or behind the instruction, in the same bank or another
		g := r.Rand("disc")
		for _, m := range emLabelLong {
			for i := 0; i < r.N(400, 4000); i++ {
				base := uint32(g.Intn(256))<<16 | uint32(g.Intn(0x10000))
				switch i % 4 {
				case 1:
					base = base&0xFF0000 | uint32(0xFF00+g.Intn(0x100)) // the program crosses a bank boundary
				case 2:
					base = base&0xFF0000 | uint32(0xFFF0+g.Intn(0x10))
				}
				if base>>16 == 0xFF && base&0xFFFF > 0xF000 {
					base -= 0x010000
				}
				before, after := g.Intn(300), g.Intn(300)
				backward := g.Bool()
				buf := make([]byte, 1024)
				e := asm.NewEmitter(buf, g.Bool())
				e.SetBase(base)
				var target, insAt uint32
				name := "t" + fmt.Sprint(i)
				pan := vf.Try(func() {
					if backward {
						e.EmitBytes(make([]byte, g.Intn(4)))
						e.Label(name)
						target = e.PC()
						e.EmitBytes(g.Bytes(before))
						insAt = uint32(e.Len())
						reflect.ValueOf(e).MethodByName(m.Name).Interface().(func(string))(name)
						e.EmitBytes(g.Bytes(after))
					} else {
						e.EmitBytes(g.Bytes(before))
						insAt = uint32(e.Len())
						reflect.ValueOf(e).MethodByName(m.Name).Interface().(func(string))(name)
						e.EmitBytes(g.Bytes(after))
						e.Label(name)
						target = e.PC()
					}
					if err := e.Finalize(); err != nil {
						panic(err)
					}
				})
				r.Eval(1)
				ctx := fmt.Sprintf("%s(label) at $%06x, label at $%06x (%d bytes %s)", m.Name, base+insAt, target, map[bool]int{true: before, false: after}[backward], map[bool]string{true: "before", false: "behind"}[backward])
				if pan != nil {
					r.Fail("discovered:"+m.Name+":fails", fmt.Sprintf("%s: %v", ctx, pan), nil)
					break
				}
				want := []byte{m.op, byte(target), byte(target >> 8), byte(target >> 16)}
				got := e.Bytes()
				if int(insAt)+4 > len(got) || !bytes.Equal(got[insAt:insAt+4], want) {
					var have []byte
					if int(insAt)+4 <= len(got) {
						have = got[insAt : insAt+4]
					}
					r.Fail("discovered:"+m.Name+":encoding", fmt.Sprintf("%s: emitted % x, canonical % x", ctx, have, want), nil)
					break
				}
				if target>>16 != (base+insAt)>>16 {
					r.Cell("discovered:" + m.Name + ":label-in-another-bank")
				} else {
					r.Cell("discovered:" + m.Name + ":label-in-bank")
				}
			}
		}
	}

	if r.Phase("encode-sweep") {
		r.Parallel(runtime.NumCPU(), len(methods)*4, func(wi, idx int) {
			m := methods[idx/4]
			flags := byte(idx%4) << 4
			if !guardOKFlags(m.Guard, flags) {
				return
			}
			cells := map[string]int64{}
			g := r.Rand("enc").Fork(uint64(idx))
			buf := make([]byte, 1<<16)
			var e *asm.Emitter
			var call func(uint32)
			fresh := func() {
				// the part of the target not yet written is the caller's (a pre-filled hook area, code emitted
				// earlier behind a reserved slot): it is filled with a pattern and looked at after every call
				for i := range buf {
					buf[i] = 0xC5
				}
				e = asm.NewEmitter(buf, false)
				if g.Intn(2) == 0 {
					e.SetBase(uint32(g.Intn(256))<<16 | uint32(g.Intn(0x8000)))
				}
				e.AssumeSEP(asm.Flags(flags))
				call = fastCall(e, m)
			}
			fresh()
			isLabel := m.Arg == aLabel8 || m.Arg == aLabel16
			var wantArr [4]byte
			var classN [6]int64
			classNames := [6]string{"none", "zero", "max", "sign-bit", "distinct-bytes", "other"}
			bits := uint(8 * (m.size() - 1))
			check := func(arg uint32) {
				if e.Len()+8 > len(buf) {
					fresh()
				}
				if m.Name == "REP" || m.Name == "SEP" {
					fresh() // they move the tracker; test from the intended state
				}
				n0, pc0 := e.Len(), e.PC()
				p := byte(e.Flags())
				if pan := vf.Try(func() { call(arg) }); pan != nil {
					r.Fail("legal-call-refused:"+m.Name, fmt.Sprintf("%s($%x) with tracked flags %02x panicked: %v", m.Name, arg, flags, pan), nil)
					return
				}
				if end := e.Len(); buf[end] != 0xC5 || buf[end+1] != 0xC5 || buf[end+2] != 0xC5 || buf[end+3] != 0xC5 {
					r.Fail("writes-behind-the-instruction:"+m.Name, fmt.Sprintf("%s($%x): target bytes behind the %d emitted ones were written: % x (were c5 c5 c5 c5)", m.Name, arg, end-n0, buf[end:end+4]), nil)
					fresh()
					return
				}
				got := e.Bytes()[n0:]
				// canonical encoding: opcode from the model's matrix, operand little-endian, length by the model's rule
				nOp := ref.OperandSize(m.Mode, p)
				wantArr[0] = m.op
				for i := 0; i < nOp; i++ {
					wantArr[1+i] = byte(arg >> (8 * uint(i)))
				}
				want := wantArr[:1+nOp]
				if isLabel {
					want = want[:1]
					if len(got) != m.size() {
						r.Fail("length:"+m.Name, fmt.Sprintf("%s(label) emitted %d bytes, the instruction is %d long", m.Name, len(got), m.size()), nil)
						return
					}
					got = got[:1]
				}
				archLen := ref.Len(m.op, p)
				if !bytes.Equal(got, want) {
					r.Fail("encoding:"+m.Name, fmt.Sprintf("%s($%x) flags=%02x emitted % x, canonical %s %s encoding is % x", m.Name, arg, flags, got, m.Mnem, ref.ModeNames[m.Mode], want), nil)
					return
				}
				if e.Len()-n0 != archLen || e.PC()-pc0 != uint32(archLen) {
					r.Fail("advance:"+m.Name, fmt.Sprintf("%s($%x): Len advanced %d, PC advanced %d, architectural length %d", m.Name, arg, e.Len()-n0, e.PC()-pc0, archLen), nil)
					return
				}
				if !isLabel {
					d, derr := ref.Decode(e.Bytes()[n0:], p)
					mask := uint32(1)<<(8*uint(archLen-1)) - 1
					if derr != nil || d.M != m.m || d.Mode != m.Mode || d.Operand != arg&mask || d.Len != archLen {
						r.Fail("decode:"+m.Name, fmt.Sprintf("%s($%x): bytes % x decode to %s %s $%x (len %d)", m.Name, arg, e.Bytes()[n0:], ref.MnemNames[d.M], ref.ModeNames[d.Mode], d.Operand, d.Len), nil)
						return
					}
				}
				ci := 5
				switch {
				case bits == 0:
					ci = 0
				case arg == 0:
					ci = 1
				case arg == uint32(1)<<bits-1:
					ci = 2
				case arg == 1<<(bits-1):
					ci = 3
				case bits >= 16 && byte(arg) != byte(arg>>8) && (arg>>8)&0xFF != 0 && arg&0xFF != 0:
					ci = 4
				}
				classN[ci]++
			}
			defer func() {
				for i, c := range classN {
					if c > 0 {
						cells[fmt.Sprintf("%s:f%02x:%s", m.Name, flags, classNames[i])] += c
					}
				}
				r.MergeCells(cells)
			}()
			var n int64
			switch m.Arg {
			case aNone:
				for i := 0; i < 16; i++ {
					check(0)
					n++
				}
			case aU8, aI8, aFlags:
				for a := uint32(0); a < 256; a++ {
					check(a)
					n++
				}
			case aU16, aLH, aBanks:
				for a := uint32(0); a < 0x10000; a++ {
					check(a)
					n++
				}
			case aLabel8, aLabel16:
				for a := uint32(0); a < 64; a++ {
					check(a)
					n++
				}
			case aU24, aLHB:
				if r.Quick() && flags != 0 {
					for _, bank := range []uint32{0x00, 0x01, 0x7E, 0x7F, 0x80, 0xAA, 0xFE, 0xFF} {
						for a := uint32(0); a < 0x10000; a++ {
							check(bank<<16 | a)
							n++
						}
					}
					for i := 0; i < 1<<16; i++ {
						check(g.U32() & 0xFFFFFF)
						n++
					}
				} else {
					for a := uint32(0); a < 1<<24; a++ {
						check(a)
						n++
					}
				}
			}
			r.Eval(n)
		})
		r.Sample(map[string]interface{}{"method": "LDA_imm16_w", "flags": "00", "operand": "$1234", "bytes": "a9 34 12"})
		r.Sample(map[string]interface{}{"method": "MVN", "dest,src": "$7e,$00", "bytes": "54 7e 00"})
	}

	if r.Phase("at-buffer-end") {
		// the same law where the target buffer ends: with 0..size+1 free bytes a method either appends its
		// whole encoding (Len and PC advance by the architectural length) or refuses and appends nothing
		r.Parallel(runtime.NumCPU(), len(methods), func(wi, idx int) {
			m := methods[idx]
			g := r.Rand("end").Fork(uint64(idx))
			cells := map[string]int64{}
			for flags := byte(0); flags < 0x40; flags += 0x10 {
				if !guardOKFlags(m.Guard, flags) {
					continue
				}
				for free := 0; free <= m.size()+1; free++ {
					for rep := 0; rep < 6; rep++ {
						prefix := []int{0, 1, 7, 100}[g.Intn(4)]
						listing := g.Intn(3) == 0
						buf := make([]byte, prefix+free+8)
						for i := range buf {
							buf[i] = 0xCC
						}
						target := buf[: prefix+free : prefix+free]
						if rep%2 == 1 {
							target = buf[:prefix+free] // spare capacity behind the window
						}
						e := asm.NewEmitter(target, listing)
						if g.Bool() {
							e.SetBase(uint32(g.Intn(256))<<16 | uint32(g.Intn(0x8000)))
						}
						e.AssumeSEP(asm.Flags(flags))
						if prefix > 0 {
							e.EmitBytes(g.Bytes(prefix))
						}
						if m.Arg == aLabel8 || m.Arg == aLabel16 {
							e.Label("l0")
						}
						arg := g.U32()
						if m.Arg == aLabel8 || m.Arg == aLabel16 {
							arg = 0
						}
						n0, pc0 := e.Len(), e.PC()
						p := byte(e.Flags())
						pan := vf.Try(func() { callMethod(e, m, arg, "l0") })
						r.Eval(1)
						dn, dpc := e.Len()-n0, int(e.PC()-pc0)
						what := fmt.Sprintf("%s($%x) under flags %02x with %d of %d bytes free (Len %d)", m.Name, arg, flags, free, m.size(), n0)
						switch {
						case string(buf[prefix+free:]) != "\xcc\xcc\xcc\xcc\xcc\xcc\xcc\xcc":
							r.Fail("writes-beyond-buffer:"+m.Name, what+": bytes beyond the target buffer were written", nil)
						case pan != nil && (dn != 0 || dpc != 0):
							r.Fail("refused-but-advanced:"+m.Name, fmt.Sprintf("%s: refused (%v) but Len advanced by %d and PC by %d", what, pan, dn, dpc), nil)
						case pan == nil && (dn != m.size() || dpc != m.size()):
							r.Fail("length-at-buffer-end:"+m.Name, fmt.Sprintf("%s: returned normally, Len advanced by %d and PC by %d, the instruction is %d bytes long", what, dn, dpc, m.size()), nil)
						case pan == nil && free < m.size():
							r.Fail("overflow-accepted:"+m.Name, what+": accepted although it does not fit", nil)
						case pan != nil && free >= m.size():
							r.Fail("legal-call-refused:"+m.Name, fmt.Sprintf("%s: refused although it fits: %v", what, pan), nil)
						case pan == nil:
							got := e.Bytes()[n0:]
							if got[0] != m.op || len(got) != 1+ref.OperandSize(m.Mode, p) {
								r.Fail("encoding-at-buffer-end:"+m.Name, fmt.Sprintf("%s: appended % x", what, got), nil)
							}
							cells["buffer-end:fits"]++
						default:
							cells[fmt.Sprintf("buffer-end:refused:short%d", m.size()-free)]++
						}
					}
				}
			}
			r.MergeCells(cells)
		})
	}
	if r.Phase("after-idioms") {
		// every method right after every load-then-transfer idiom (LDA #0 / TCD, LDX #$1FF / TXS, ...):
		// what a method appends is a function of the method and its operand, not of what the
		// assembler may have inferred from the instructions before it
		var loads []*emMethod
		for _, m := range methods {
			if strings.HasPrefix(m.Name, "LD") && strings.Contains(m.Name, "_imm") {
				loads = append(loads, m)
			}
		}
		var follow []*emMethod
		seen := map[string]bool{}
		for _, n := range idiomFollowUps {
			if m := emByName[n]; m != nil && !seen[n] && !missingSet[n] {
				follow = append(follow, m)
				seen[n] = true
			}
		}
		r.Parallel(runtime.NumCPU(), len(loads)*len(follow), func(wi, idx int) {
			ld, fu := loads[idx/len(follow)], follow[idx%len(follow)]
			g := r.Rand("idiom").Fork(uint64(idx))
			var n int64
			for _, v := range []uint32{0, 1, 0xFF, 0x100, 0x1FF, 0xFFFF, g.U32()} {
				for flags := byte(0); flags < 0x40; flags += 0x10 {
					if !guardOKFlags(ld.Guard, flags) {
						continue
					}
					for _, m := range methods {
						if m.Arg == aLabel8 || m.Arg == aLabel16 {
							continue
						}
						for _, arg := range []uint32{0, g.U32() & 0xFF, g.U32()} {
							e := asm.NewEmitter(make([]byte, 32), g.Intn(4) == 0)
							e.SetBase(0x008000)
							e.AssumeSEP(asm.Flags(flags))
							if vf.Try(func() { callMethod(e, ld, v, ""); callMethod(e, fu, 0, "") }) != nil {
								continue
							}
							if !guardOKFlags(m.Guard, byte(e.Flags())) {
								continue
							}
							c := hcall{Op: "ins", M: m, Arg: arg}
							want := c.bytes()
							n0, pc0 := e.Len(), e.PC()
							pan := vf.Try(func() { callMethod(e, m, arg, "") })
							n++
							if pan != nil {
								r.Fail("legal-call-refused:"+m.Name, fmt.Sprintf("after %s($%x); %s(): %s($%x) panicked: %v", ld.Name, v, fu.Name, m.Name, arg, pan), nil)
								continue
							}
							if got := e.Bytes()[n0:]; string(got) != string(want) || e.PC()-pc0 != uint32(len(want)) {
								r.Fail("encoding-after-idiom:"+m.Name, fmt.Sprintf("after %s($%x); %s(): %s($%x) appended % x (PC +%d), its encoding is % x", ld.Name, v, fu.Name, m.Name, arg, got, e.PC()-pc0, want), nil)
							}
						}
					}
				}
			}
			r.Eval(n)
			r.CellN("after-idiom:"+fu.Name, n)
		})
	}
	if r.Phase("operands-naming-labels") {
		// numeric operands that happen to be the address of a label defined earlier (callers write
		// JSR_abs(uint16(addr)) by hand), with the listing on or off and a second SetBase in between:
		// the method still appends its own encoding, and with no label-taking method called Finalize
		// leaves every byte alone
		r.Parallel(runtime.NumCPU(), len(methods), func(wi, idx int) {
			m := methods[idx]
			if m.size() < 3 || m.Arg == aLabel8 || m.Arg == aLabel16 {
				return
			}
			g := r.Rand("lbladdr").Fork(uint64(idx))
			var n int64
			for variant := 0; variant < 32; variant++ {
				listing, rebase, labelAfterRebase, twice := variant&1 != 0, variant&2 != 0, variant&4 != 0, variant&8 != 0
				for flags := byte(0); flags < 0x40; flags += 0x10 {
					if !guardOKFlags(m.Guard, flags) {
						continue
					}
					e := asm.NewEmitter(make([]byte, 256), listing)
					bank := uint32(g.Intn(256)) << 16
					pan := vf.Try(func() {
						e.SetBase(bank | uint32(0x8000+g.Intn(0x4000)))
						e.AssumeSEP(asm.Flags(flags))
						e.EmitBytes(g.Bytes(1 + g.Intn(8)))
						if !labelAfterRebase {
							e.Label("sub")
						}
						e.NOP()
						if rebase {
							e.SetBase(bank | uint32(0xC000+g.Intn(0x1000)))
						}
						if labelAfterRebase {
							e.Label("sub")
						}
						e.NOP()
					})
					if pan != nil {
						continue
					}
					addr, _ := e.GetLabel("sub")
					arg := addr
					c := hcall{Op: "ins", M: m, Arg: arg}
					want := c.bytes()
					n0 := e.Len()
					if vf.Try(func() {
						callMethod(e, m, arg, "")
						if twice {
							callMethod(e, m, arg, "")
						}
						e.EmitBytes(g.Bytes(4))
					}) != nil {
						continue
					}
					n++
					if got := e.Bytes()[n0 : n0+len(want)]; string(got) != string(want) {
						r.Fail("encoding-with-label-address-operand:"+m.Name, fmt.Sprintf("%s($%x) (the address of a defined label) appended % x, its encoding is % x", m.Name, arg, got, want), nil)
						continue
					}
					pre := append([]byte(nil), e.Bytes()...)
					var err error
					if p := vf.Try(func() { err = e.Finalize() }); p != nil || err != nil || string(e.Bytes()) != string(pre) {
						at := -1
						if p == nil && err == nil {
							at = firstDiff(e.Bytes(), pre)
						}
						r.Fail("finalize-without-references:"+m.Name, fmt.Sprintf("listing=%v second SetBase=%v: after %s($%x) (operand = address of label \"sub\"; no label-taking method called) Finalize: panic=%v err=%v, first changed byte %d", listing, rebase, m.Name, arg, p, err, at), nil)
					}
				}
			}
			r.Eval(n)
			r.CellN("label-address-operand", n)
		})
	}
	if r.Phase("in-context") {
		// the same law inside whole call histories: what a call appends must not depend on what was
		// emitted before it (previous bytes, labels, data blocks, width changes)
		chunks := r.N(32, 1600)
		r.Parallel(runtime.NumCPU(), chunks, func(wi, ci int) {
			g := r.Rand("ctx").Fork(uint64(ci))
			cells := map[string]int64{}
			defer r.MergeCells(cells)
			var n int64
			for k := 0; k < 200 && !r.TooMany(); k++ {
				calls, _, _ := genHistory(g, histOpts{maxCalls: []int{200, 60}[k%2], listing: g.Intn(4) == 0, withRefs: g.Intn(2) == 0, dataBlocks: g.Intn(4) == 0, defineAll: true})
				// operands biased to opcode-looking bytes
				for i := range calls {
					if calls[i].Op == "ins" && calls[i].M.Arg != aNone && calls[i].M.Arg != aLabel8 && calls[i].M.Arg != aLabel16 && g.Intn(3) == 0 && calls[i].M.Name != "REP" && calls[i].M.Name != "SEP" {
						b := []uint32{0xC2, 0xE2, 0x54, 0x80, 0x4C, 0x22, 0xA9, 0x00, 0xFF}
						calls[i].Arg = (b[g.Intn(len(b))] | b[g.Intn(len(b))]<<8 | b[g.Intn(len(b))]<<16) & (uint32(1)<<(8*uint(calls[i].M.size()-1)) - 1)
					}
				}
				var e *asm.Emitter
				var sh *shadow
				var ok bool
				if g.Intn(2) == 0 {
					// the same calls reaching the emitter through clones (fragments assembled separately)
					e, sh, _, ok = runHistoryTree(r, g, calls, false, 16384, "in-context", cells)
					cells["in-context:through-clones"]++
				} else {
					e, sh, _, ok = runHistory(r, calls, false, 16384, "in-context")
				}
				if k%25 == 7 {
					// a program spanning a bank and more: label-taking methods whose label is tens of thousands
					// of bytes away (around the 32 KiB and 64 KiB marks); a branch that cannot be encoded must
					// not come out as the encoding of some other branch
					fcalls, _, _ := genFarHistory(g, false)
					fe2, fsh, _, fok := runHistory(r, fcalls, false, 0x10100, "in-context-far")
					if fok {
						fex := fsh.expectFinalize()
						err := fe2.Finalize()
						switch {
						case fex.ok && err == nil && string(fe2.Bytes()) != string(fex.code):
							at := firstDiff(fe2.Bytes(), fex.code)
							r.Fail("in-context-finalized-bytes", fmt.Sprintf("far program: after Finalize byte %d is %02x, the encoding has %02x there", at, fe2.Bytes()[at], fex.code[at]), histStrings(fcalls))
						case !fex.ok && err == nil:
							r.Fail("in-context-unencodable-branch-emitted", "far program: a label-taking branch whose label is out of reach was given an operand instead of being refused", histStrings(fcalls))
						}
						cells["in-context:far-program"]++
					}
				}
				// with every label resolved, the label-taking methods' operands are part of the encoding too
				if fe := sh.expectFinalize(); ok && fe.ok && len(sh.refs) > 0 {
					if err := e.Finalize(); err == nil && string(e.Bytes()) != string(fe.code) {
						at := firstDiff(e.Bytes(), fe.code)
						r.Fail("in-context-finalized-bytes", fmt.Sprintf("after Finalize byte %d is %02x, the encoding of the emitted instruction has %02x there", at, e.Bytes()[at], fe.code[at]), histStrings(calls))
					}
					cells["in-context:finalized"]++
				}
				n += int64(len(calls))
			}
			r.Eval(n)
			r.CellN("in-context:calls", n)
		})
	}
	book := &shapeBook{byMode: map[string]map[string]bool{}}
	if r.Phase("library-decode") {
		// decode the emitted bytes with both library CPUs
		chunks := len(methods)
		r.Parallel(runtime.NumCPU(), chunks, func(wi, idx int) {
			m := methods[idx]
			if m.Arg == aLabel8 || m.Arg == aLabel16 {
				return
			}
			rig, _ := rigPool.Get().(*cpuRig)
			if rig == nil {
				rig = newRig()
			}
			defer rigPool.Put(rig)
			g := r.Rand("lib").Fork(uint64(idx))
			cells := map[string]int64{}
			for fl := 0; fl < 4; fl++ {
				flags := byte(fl) << 4
				if !guardOKFlags(m.Guard, flags) {
					continue
				}
				for i := 0; i < r.N(48, 2000); i++ {
					arg := g.U32()
					switch i % 6 {
					case 0:
						arg = 0
					case 1:
						arg = 0xFFFFFFFF
					case 2:
						arg = 0x80808080
					}
					mask := uint32(1)<<(8*uint(m.size()-1)) - 1
					if m.size() == 1 {
						mask = 0
					}
					arg &= mask
					buf := make([]byte, 8)
					e := asm.NewEmitter(buf, false)
					e.AssumeSEP(asm.Flags(flags))
					if pan := vf.Try(func() { callMethod(e, m, arg, "") }); pan != nil {
						continue // reported by the encode sweep
					}
					code := e.Bytes()
					// place at a random K:PC (no bank wrap) on a lazily random image
					var s ref.State
					s = genState(g)
					s.P = s.P&^0x38 | flags
					if s.P&0x10 != 0 {
						s.X &= 0xFF
						s.Y &= 0xFF
					}
					s.A = 0 // MVN completes in one step
					s.PC = uint16(g.Intn(0xFF00))
					img := mem.New(g.U64())
					for k, b := range code {
						img.Ov[uint32(s.K)<<16|uint32(s.PC)+uint32(k)] = b
					}
					rig.loadPrim(s, false, g)
					rig.loadAltFromPrim()
					mp, ma := img.Clone(), img.Clone()
					rig.bm.M, rig.am = mp, ma
					lineP := string(rig.prim.DisassembleCurrentPC(nil))
					var sb strings.Builder
					rig.alt.DisassembleCurrentPC(&sb)
					lineA := sb.String()
					// full decode by the library's disassemblers: bytes, mnemonic and operand digits
					pre := absPrim(&rig.prim)
					det := func() interface{} {
						return map[string]interface{}{"method": m.Name, "arg": arg, "flags": flags, "code": vf.Hex(code)}
					}
					checkTraceLine(r, "cpu65c816", lineP, pre, img, book, pre.PC, det)
					checkTraceLine(r, "cpualt", lineA, pre, img, book, pre.PC, det)
					for who, line := range map[string]string{"cpu65c816": lineP, "cpualt": lineA} {
						nb, mn, ok := parseTraceBytes(line)
						if !ok {
							r.Fail("library-trace-unparsable:"+who, fmt.Sprintf("%s: cannot parse %q", who, line), nil)
							continue
						}
						wantMn := m.Mnem
						if wantMn == "jml" {
							wantMn = "jmp"
						}
						if nb != len(code) || mn != wantMn {
							r.Fail("library-decode:"+m.Name, fmt.Sprintf("%s decodes %s($%x) bytes % x as %q with %d bytes (flags %02x)", who, m.Name, arg, code, mn, nb, flags), nil)
						}
					}
					if !m.Transfer {
						rp := rig.stepPrim(mp)
						ra := rig.stepAlt(ma)
						if rp.pan == nil && rig.prim.PC != s.PC+uint16(len(code)) {
							r.Fail("library-step:"+m.Name, fmt.Sprintf("cpu65c816 advanced PC by %d executing %s (% x), emitted length %d", rig.prim.PC-s.PC, m.Name, code, len(code)), nil)
						}
						if ra.pan == nil && rig.alt.PC != s.PC+uint16(len(code)) {
							r.Fail("library-step:"+m.Name, fmt.Sprintf("cpualt advanced PC by %d executing %s (% x), emitted length %d", rig.alt.PC-s.PC, m.Name, code, len(code)), nil)
						}
					}
					r.Eval(1)
					cells[fmt.Sprintf("lib:%s:f%02x", m.Name, flags)]++
				}
			}
			r.MergeCells(cells)
		})
	}
	if r.OnlyPhase == "" {
		for _, m := range methods {
			r.RequireSub(m.Name + ":f")
		}
	}
}

// parseTraceBytes extracts the number of instruction bytes and the mnemonic from a trace line of either CPU.
func parseTraceBytes(line string) (nbytes int, mnem string, ok bool) {
	line = strings.ReplaceAll(line, "│", "|")
	parts := strings.Split(line, "|")
	// find the field that looks like "KK:PPPP"
	for i := 0; i+2 < len(parts); i++ {
		f := strings.TrimSpace(parts[i])
		if j := strings.LastIndex(f, "\t"); j >= 0 {
			f = f[j+1:]
		}
		if len(f) == 7 && f[2] == ':' {
			bs := strings.Fields(parts[i+1])
			ins := strings.Fields(parts[i+2])
			if len(ins) == 0 {
				return 0, "", false
			}
			return len(bs), ins[0], true
		}
	}
	return 0, "", false
}
