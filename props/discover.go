package props

import (
	"reflect"
	"strings"

	"github.com/alttpo/snes/asm"

	"verif/internal/ref"
)

// The Emitter's instruction methods follow a naming convention (MNEMONIC[_mode[_size]]), and the
// property speaks of "every Emitter method ... named after" an instruction. Methods that are not in
// the hand-written table are therefore read by that convention: mnemonic from the first token,
// addressing mode from the rest, operand kind from the Go signature (all three must agree with the
// opcode matrix, otherwise the method stays "unmapped" and C03 is inconclusive). Methods read this
// way join the table, so every monitor that draws on it exercises them like the others.

// emLabelLong: discovered methods that take a label for a 24-bit (long) operand; judged by C03's
// discovered-methods phase only (the shared generators know 8- and 16-bit label operands).
var emLabelLong []*emMethod

var transferMnems = map[string]bool{"jmp": true, "jml": true, "jsr": true, "jsl": true, "rts": true, "rtl": true, "rti": true, "brk": true, "cop": true,
	"stp": true, "wai": true, "plp": true, "bra": true, "brl": true, "bcc": true, "bcs": true, "beq": true, "bne": true, "bmi": true, "bpl": true, "bvc": true, "bvs": true}

var suffixModes = map[string][]ref.Mode{
	"dp": {ref.Dp}, "dp_x": {ref.DpX}, "dp_y": {ref.DpY}, "abs": {ref.Abs}, "abs_x": {ref.AbsX}, "abs_y": {ref.AbsY},
	"long": {ref.AbsL}, "long_x": {ref.AbsLX}, "indirect": {ref.AbsInd, ref.DpInd}, "indirect_x": {ref.AbsIndX, ref.DpIndX},
	"indirect_long": {ref.AbsIndL, ref.DpIndL}, "dp_indirect": {ref.DpInd}, "dp_indirect_x": {ref.DpIndX}, "dp_indirect_y": {ref.DpIndY},
	"dp_indirect_long": {ref.DpIndL}, "dp_indirect_long_y": {ref.DpIndLY}, "sr": {ref.Sr}, "sr_indirect_y": {ref.SrIndY},
	"abs_imm16_w": {ref.Abs},
}

func sigOf(t reflect.Type) string { // of a bound method value: parameters only
	var p []string
	for i := 0; i < t.NumIn(); i++ {
		p = append(p, t.In(i).String())
	}
	if t.NumOut() != 0 {
		return "returns"
	}
	return strings.Join(p, ",")
}

func modeSize(m ref.Mode) int { // operand bytes, -1 = depends on width
	switch m {
	case ref.Imp, ref.Acc:
		return 0
	case ref.ImmM, ref.ImmX:
		return -1
	case ref.Imm8, ref.Dp, ref.DpX, ref.DpY, ref.DpInd, ref.DpIndX, ref.DpIndY, ref.DpIndL, ref.DpIndLY, ref.Rel8, ref.Sr, ref.SrIndY:
		return 1
	case ref.AbsL, ref.AbsLX:
		return 3
	}
	return 2
}

// readMethodName derives a table entry from a method's name and signature, or nil.
func readMethodName(name, sig string) (m *emMethod, labelLong bool) {
	tok := strings.Split(name, "_")
	mnem := strings.ToLower(tok[0])
	mn, ok := ref.MnemByName(mnem)
	if !ok || strings.ToUpper(tok[0]) != tok[0] {
		return nil, false
	}
	suffix := strings.Join(tok[1:], "_")
	has := func(mode ref.Mode) bool { _, ok := ref.FindOp(mn, mode); return ok }
	e := &emMethod{Name: name, Mnem: mnem, Transfer: transferMnems[mnem]}
	switch {
	case sig == "" && suffix == "":
		switch {
		case has(ref.Imp):
			e.Mode = ref.Imp
		case has(ref.Acc):
			e.Mode = ref.Acc
		default:
			return nil, false
		}
		return e, false
	case sig == "" && (suffix == "a" || suffix == "acc") && has(ref.Acc):
		e.Mode = ref.Acc
		return e, false
	case sig == "string":
		if suffix != "" && suffix != "label" && suffix != "abs" && suffix != "long" {
			return nil, false
		}
		switch {
		case has(ref.Rel8) && (suffix == "" || suffix == "label"):
			e.Mode, e.Arg = ref.Rel8, aLabel8
		case has(ref.Abs) && suffix != "long":
			e.Mode, e.Arg = ref.Abs, aLabel16
		case has(ref.AbsL) && suffix != "abs":
			e.Mode, e.Arg = ref.AbsL, aU24
			return e, true
		default:
			return nil, false
		}
		return e, false
	case suffix == "imm8" && sig == "int8" && has(ref.Rel8):
		e.Mode, e.Arg = ref.Rel8, aI8
		return e, false
	case suffix == "lhb" && sig == "uint8,uint8,uint8" && has(ref.AbsL):
		e.Mode, e.Arg = ref.AbsL, aLHB
		return e, false
	case strings.HasPrefix(suffix, "imm"):
		var mode ref.Mode
		switch {
		case has(ref.ImmM):
			mode = ref.ImmM
		case has(ref.ImmX):
			mode = ref.ImmX
		case has(ref.Imm8):
			mode = ref.Imm8
		case has(ref.Imm16):
			mode = ref.Imm16
		default:
			return nil, false
		}
		e.Mode = mode
		wide := mode == ref.ImmM || mode == ref.ImmX
		switch {
		case (suffix == "imm8_b" || suffix == "imm8") && sig == "uint8" && mode != ref.Imm16:
			e.Arg = aU8
			if mode == ref.ImmM {
				e.Guard = gM8
			} else if mode == ref.ImmX {
				e.Guard = gX8
			}
		case (suffix == "imm16_w" || suffix == "imm16") && sig == "uint16" && (wide || mode == ref.Imm16):
			e.Arg = aU16
			if mode == ref.ImmM {
				e.Guard = gM16
			} else if mode == ref.ImmX {
				e.Guard = gX16
			}
		case suffix == "imm16_lh" && sig == "uint8,uint8" && (wide || mode == ref.Imm16):
			e.Arg = aLH
			if mode == ref.ImmM {
				e.Guard = gM16
			} else if mode == ref.ImmX {
				e.Guard = gX16
			}
		default:
			return nil, false
		}
		return e, false
	}
	for _, mode := range suffixModes[suffix] {
		if !has(mode) {
			continue
		}
		want := map[int]string{1: "uint8", 2: "uint16", 3: "uint32"}[modeSize(mode)]
		if sig != want {
			continue
		}
		e.Mode = mode
		e.Arg = map[int]argKind{1: aU8, 2: aU16, 3: aU24}[modeSize(mode)]
		return e, false
	}
	return nil, false
}

// discoverMethods extends the table with the methods of *asm.Emitter it does not list.
func discoverMethods() {
	v := reflect.ValueOf(&asm.Emitter{})
	t := v.Type()
	known := map[string]bool{}
	for _, m := range emMethods {
		known[m.Name] = true
	}
	for i := 0; i < t.NumMethod(); i++ {
		n := t.Method(i).Name
		if known[n] || emNonInstruction[n] {
			continue
		}
		m, long := readMethodName(n, sigOf(v.Method(i).Type()))
		if m == nil {
			continue
		}
		m.Discovered = true
		if long {
			mn, _ := ref.MnemByName(m.Mnem)
			m.op, _ = ref.FindOp(mn, m.Mode)
			m.m = mn
			emLabelLong = append(emLabelLong, m)
			emDiscoveredNames = append(emDiscoveredNames, n)
			continue
		}
		emMethods = append(emMethods, m)
		emDiscoveredNames = append(emDiscoveredNames, n)
	}
}

var emDiscoveredNames []string
