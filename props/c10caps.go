package props

import (
	"bytes"
	"fmt"
	"io"

	"verif/internal/vf"
)

// readerCapabilities: the handle BusReader returns is an io.Reader, and whatever else its concrete type
// offers (io.Seeker, io.ReaderAt, io.ByteScanner, io.WriterTo - the standard reader types offer all of
// them) is reachable by a type assertion. None of it may deliver a byte from outside the window: every
// byte handed out, by whichever method and after whichever positioning, is the window's byte at the
// position the handle claims to be at (or, where it has refused a positioning call, at some position
// inside the window). want is the window's content. Returns "" or what went wrong.
func readerCapabilities(g *vf.Rng, rd io.Reader, want []byte, cells map[string]int64) string {
	pos, known := 0, true // the model's idea of the read position; !known after a refused positioning call
	inside := func(data []byte, what string) string {
		if len(data) == 0 {
			return ""
		}
		if known {
			if pos < 0 || pos > len(want) || pos+len(data) > len(want) || !bytes.Equal(want[pos:pos+len(data)], data) {
				return fmt.Sprintf("%s delivered % x at window position %d of %d: not the window's bytes there", what, head(data, 8), pos, len(want))
			}
			pos += len(data)
			return ""
		}
		i := bytes.Index(want, data)
		if i < 0 {
			return fmt.Sprintf("%s delivered % x, which the window does not contain", what, head(data, 8))
		}
		pos, known = i+len(data), len(data) >= 8 && bytes.Index(want[i+1:], data) < 0 // (only where the place is unambiguous)
		return ""
	}
	for step := 0; step < 12; step++ {
		switch g.Intn(6) {
		case 0, 1:
			sk, ok := rd.(io.Seeker)
			if !ok {
				continue
			}
			whence := g.Intn(3)
			base := []int{0, pos, len(want)}[whence]
			var target int
			switch g.Intn(4) {
			case 0:
				target = -1 - g.Intn(40) // in front of the window
			case 1:
				target = -0x8000 + g.Intn(0x100)
			case 2:
				target = g.Intn(len(want) + 1)
			default:
				target = len(want) + g.Intn(40)
			}
			if !known && whence == 1 {
				whence, base = 0, 0
			}
			off := int64(target - base)
			var np int64
			var err error
			if pan := vf.Try(func() { np, err = sk.Seek(off, whence) }); pan != nil {
				return fmt.Sprintf("Seek(%d,%d) panicked: %v", off, whence, pan)
			}
			cells["reader-capability:seek"]++
			switch {
			case err != nil:
				// refused: wherever the handle is now, it is inside the window (checked by what it delivers)
				if target >= 0 && target <= len(want) {
					known = false
				}
			case np < 0:
				// accepted a position in front of the window: what matters is what the handle delivers from there
				buf := make([]byte, 1+g.Intn(48))
				if n, _ := rd.Read(buf); n > 0 {
					return fmt.Sprintf("after Seek(%d, whence %d) = %d, Read delivered % x from in front of the window", off, whence, np, head(buf[:n], 8))
				}
				known = false
			default:
				pos, known = int(np), true
				if int(np) != target {
					known = false
				}
			}
		case 2:
			ra, ok := rd.(io.ReaderAt)
			if !ok {
				continue
			}
			off := int64(g.Intn(len(want)+8)) - 4
			if g.Intn(3) == 0 {
				off = -int64(1 + g.Intn(0x8000))
			}
			buf := make([]byte, 1+g.Intn(64))
			var n int
			if pan := vf.Try(func() { n, _ = ra.ReadAt(buf, off) }); pan != nil {
				continue // (a refusal by panic exposes nothing)
			}
			cells["reader-capability:readat"]++
			if n > 0 {
				if off < 0 || int(off)+n > len(want) || !bytes.Equal(want[off:int(off)+n], buf[:n]) {
					return fmt.Sprintf("ReadAt(%d bytes, offset %d) delivered % x: not the window's bytes at that offset (window of %d)", len(buf), off, head(buf[:n], 8), len(want))
				}
			}
		case 3:
			bs, ok := rd.(io.ByteScanner)
			if !ok {
				continue
			}
			if g.Bool() {
				var err error
				if pan := vf.Try(func() { err = bs.UnreadByte() }); pan != nil {
					continue
				}
				cells["reader-capability:unreadbyte"]++
				if err == nil {
					if known {
						pos--
						if pos < 0 {
							known = false // (the next byte delivered decides)
							pos = 0
						}
					}
				}
			} else {
				var b byte
				var err error
				if pan := vf.Try(func() { b, err = bs.ReadByte() }); pan != nil {
					continue
				}
				if err == nil {
					if msg := inside([]byte{b}, "ReadByte"); msg != "" {
						return msg
					}
				}
			}
		case 4:
			buf := make([]byte, 1+g.Intn(48))
			n, _ := rd.Read(buf)
			if msg := inside(buf[:n], "Read"); msg != "" {
				return msg
			}
		default:
			wt, ok := rd.(io.WriterTo)
			if !ok || g.Intn(3) != 0 {
				continue
			}
			var sink bytes.Buffer
			if pan := vf.Try(func() { _, _ = wt.WriteTo(&sink) }); pan != nil {
				continue
			}
			cells["reader-capability:writeto"]++
			if msg := inside(sink.Bytes(), "WriteTo"); msg != "" {
				return msg
			}
		}
	}
	return ""
}

func head(b []byte, n int) []byte {
	if len(b) > n {
		return b[:n]
	}
	return b
}
