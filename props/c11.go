package props

import (
	"bytes"
	"fmt"

	"github.com/alttpo/snes/emulator"
	"github.com/alttpo/snes/mapping/lorom"

	"verif/internal/vf"
)

func init() { reg("C11", C11) }

type sysShadow struct {
	s               *emulator.System
	rom, wram, sram []byte
}

func newSysShadow(g *vf.Rng, hdrVariant int) (*sysShadow, error) {
	s := new(emulator.System)
	fill := func(b []byte) {
		// cheap seeded fill
		x := g.U64()
		for i := range b {
			x = x*6364136223846793005 + 1442695040888963407
			b[i] = byte(x >> 56)
		}
	}
	fill(s.ROM[:])
	fill(s.WRAM[:])
	fill(s.SRAM[:])
	// cartridge-header locations hold small plausible values (map mode, ROM/RAM size, ...): a system
	// that configures itself from the ROM contents must still follow the mapper
	for _, base := range []int{0x7FB0, 0xFFB0, 0x40FFB0} {
		for i := 0x20; i < 0x30; i++ {
			if hdrVariant >= 0 {
				s.ROM[base+i] = byte(hdrVariant)
			} else {
				s.ROM[base+i] = byte(g.Intn(16))
			}
		}
	}
	if err := s.CreateEmulator(); err != nil {
		return nil, err
	}
	return &sysShadow{s, append([]byte(nil), s.ROM[:]...), append([]byte(nil), s.WRAM[:]...), append([]byte(nil), s.SRAM[:]...)}, nil
}

// cell resolves a pak address to (array name, live slice, shadow slice, index).
func (h *sysShadow) cell(p uint32) (string, []byte, []byte, int, bool) {
	switch {
	case p < 0xE00000:
		return "rom", h.s.ROM[:], h.rom, int(p), true
	case p < 0xF00000:
		i := int(p - 0xE00000)
		return "sram", h.s.SRAM[:], h.sram, i, i < len(h.s.SRAM)
	case p >= 0xF50000 && p < 0xF70000:
		return "wram", h.s.WRAM[:], h.wram, int(p - 0xF50000), true
	}
	return "?", nil, nil, 0, false
}

func (h *sysShadow) diff() string {
	if !bytes.Equal(h.s.ROM[:], h.rom) {
		return fmt.Sprintf("ROM[$%06x]", firstDiff(h.s.ROM[:], h.rom))
	}
	if !bytes.Equal(h.s.WRAM[:], h.wram) {
		return fmt.Sprintf("WRAM[$%05x]", firstDiff(h.s.WRAM[:], h.wram))
	}
	if !bytes.Equal(h.s.SRAM[:], h.sram) {
		return fmt.Sprintf("SRAM[$%04x]", firstDiff(h.s.SRAM[:], h.sram))
	}
	return ""
}

func busRead(s *emulator.System, a uint32) (v byte, served bool) {
	defer func() {
		if recover() != nil {
			served = false
		}
	}()
	return s.Bus.EaRead(a), true
}

func busWrite(s *emulator.System, a uint32, v byte) (served bool) {
	defer func() {
		if recover() != nil {
			served = false
		}
	}()
	s.Bus.EaWrite(a, v)
	return true
}

// C11: exhaustive toggle/write sweep of the emulated System's bus against the LoROM mapper.
func C11(r *vf.Run) {
	r.Rule = "all 2^24 bus addresses: where the emulator serves the address and lorom.BusAddressToPak maps it, a read must follow the designated ROM/SRAM/WRAM cell through two different values (toggle test) and a write must change exactly that cell (full shadow diff of the three arrays after every bank); thorough repeats with three fills and in descending order; plus random-order sequences mixing EaRead, EaWrite, EaRead24_wrap and block reads (EaDump windows across page, half-bank and bank boundaries) with block locality; plus long-lived Systems whose host re-attaches its own handlers over register-area windows 67,000+ times with the map re-verified after every Attach; a cell is (memory class, bank group, read|write)"
	r.Exhaustive = true
	r.Assume = []string{"an address is 'served' when System.Bus.EaRead does not panic", "arrays are filled before CreateEmulator; the cartridge-header bytes ($xxFFD0-$FFDF) take the values 0..15 across workers", "SRAM cells beyond len(System.SRAM) do not exist; such addresses are judged only if the emulator serves them"}

	passes := 1
	if !r.Quick() {
		passes = 3
	}
	workers := 8
	for pass := 0; pass < passes; pass++ {
		if !r.Phase(fmt.Sprintf("sweep-pass%d", pass)) {
			continue
		}
		desc := pass == 2
		r.Parallel(workers, workers, func(w, wi int) {
			g := r.Rand(fmt.Sprintf("fill%d", pass)).Fork(uint64(wi))
			h, err := newSysShadow(g, wi+pass*workers)
			if err != nil {
				r.Fail("create-emulator", err.Error(), nil)
				return
			}
			cells := map[string]int64{}
			per := 256 / workers
			for bi := 0; bi < per; bi++ {
				bank := uint32(wi*per + bi)
				if desc {
					bank = 255 - bank
				}
				group := fmt.Sprintf("%02x", bank&0xF0)
				for k := uint32(0); k < 0x10000; k++ {
					off := k
					if desc {
						off = 0xFFFF - k
					}
					a := bank<<16 | off
					p, merr := lorom.BusAddressToPak(a)
					v0, served := busRead(h.s, a)
					switch {
					case merr != nil && !served:
						cells["neither"]++
						continue
					case merr != nil:
						cells["emulator-only:"+group]++
						continue
					case !served:
						cells["mapper-only:"+group]++
						continue
					}
					cls, live, shadow, idx, exists := h.cell(p)
					if !exists {
						// the emulator serves an address whose designated cell does not exist in its arrays
						r.Fail("served-without-cell-"+cls, fmt.Sprintf("bus $%06x is served by the emulator but the mapper designates %s cell $%06x which the emulator does not have", a, cls, p), nil)
						continue
					}
					// read follows the cell through two values
					if v0 != live[idx] {
						r.Fail("read-"+cls+"-"+group, fmt.Sprintf("read $%06x = %02x but %s[$%x] (pak $%06x) = %02x", a, v0, cls, idx, p, live[idx]), nil)
						continue
					}
					old := live[idx]
					live[idx] = old ^ 0xFF
					v1, _ := busRead(h.s, a)
					live[idx] = old
					if v1 != old^0xFF {
						r.Fail("read-"+cls+"-"+group, fmt.Sprintf("read $%06x does not follow %s[$%x] (pak $%06x): cell toggled to %02x, read %02x", a, cls, idx, p, old^0xFF, v1), nil)
						continue
					}
					cells["read:"+cls+":"+group]++
					// write changes exactly that cell
					nv := old ^ byte(0x5A+k)
					if nv == old {
						nv = old ^ 1
					}
					if !busWrite(h.s, a, nv) {
						r.Fail("write-not-served-"+cls, fmt.Sprintf("read of $%06x is served but the write panics", a), nil)
						continue
					}
					if live[idx] != nv {
						d := h.diff()
						r.Fail("write-"+cls+"-"+group, fmt.Sprintf("write $%06x <- %02x: %s[$%x] (pak $%06x) is %02x; first changed cell: %s", a, nv, cls, idx, p, live[idx], d), nil)
						copy(h.s.ROM[:], h.rom)
						copy(h.s.WRAM[:], h.wram)
						copy(h.s.SRAM[:], h.sram)
						continue
					}
					shadow[idx] = nv
					cells["write:"+cls+":"+group]++
				}
				if d := h.diff(); d != "" {
					r.Fail("stray-write", fmt.Sprintf("after sweeping bank $%02x a cell outside the designated ones changed: %s", bank, d), nil)
					copy(h.s.ROM[:], h.rom)
					copy(h.s.WRAM[:], h.wram)
					copy(h.s.SRAM[:], h.sram)
				}
				r.Eval(0x10000)
			}
			r.MergeCells(cells)
		})
	}
	if r.Phase("interleaved-access") {
		// random-order sequences mixing EaRead, EaWrite and EaRead24_wrap with locality (the next
		// access often lands in the 16-byte block touched last), every byte checked against the
		// designated cell: catches state the bus keeps between accesses
		chunks := r.N(16, 640)
		r.Parallel(workers, chunks, func(w, ci int) {
			g := r.Rand("inter").Fork(uint64(ci))
			h, err := newSysShadow(g, ci%12)
			if err != nil {
				r.Fail("create-emulator", err.Error(), nil)
				return
			}
			cells := map[string]int64{}
			pick := func() uint32 {
				for {
					var a uint32
					switch g.Intn(6) {
					case 0:
						a = uint32(g.Intn(0x40))<<16 | uint32(g.Intn(0x2000)) // WRAM mirror
					case 1:
						a = 0x7E0000 + uint32(g.Intn(0x20000))
					case 2:
						a = uint32(0x70+g.Intn(2))<<16 | uint32(g.Intn(0x8000)) // SRAM
					case 3:
						a = uint32(0x80+g.Intn(0x40))<<16 | uint32(0x8000+g.Intn(0x8000))
					default:
						a = uint32(g.Intn(0x40))<<16 | uint32(0x8000+g.Intn(0x8000))
					}
					if _, err := lorom.BusAddressToPak(a); err == nil {
						return a
					}
				}
			}
			// which 16-byte blocks the emulator serves: probed once up front, because a probing read
			// in the middle of a sequence would itself change the state the bus keeps between accesses
			served := make([]bool, 1<<20)
			for blk := range served {
				_, served[blk] = busRead(h.s, uint32(blk)<<4)
			}
			cellOf := func(a uint32) (string, []byte, []byte, int, bool) {
				p, err := lorom.BusAddressToPak(a)
				if err != nil || !served[a>>4] {
					return "", nil, nil, 0, false
				}
				return h.cell(p)
			}
			last := pick()
			var hist []string
			for step := 0; step < r.N(4000, 20000) && !r.TooMany(); step++ {
				a := pick()
				if g.Bool() { // stay in (or next to) the block touched last
					a = last&^15 | uint32(g.Intn(16))
					if g.Intn(4) == 0 {
						a += 16
					}
				}
				op := g.Intn(5)
				if len(hist) > 6 {
					hist = hist[1:]
				}
				switch op {
				case 4:
					// a block read through the bus: a window that runs across page, half-bank and bank
					// boundaries (ROM half into the next bank's low WRAM, WRAM into the register area, ...)
					start := a
					switch g.Intn(4) {
					case 0:
						start = a&0xFF0000 | 0xFF00 + uint32(g.Intn(0x100)) // runs into the next bank
					case 1:
						start = a&0xFF0000 | 0x8000 - uint32(1+g.Intn(0x40)) // runs into the ROM half
					case 2:
						start = a&0xFF0000 | 0x1F00 + uint32(g.Intn(0x100)) // low WRAM into the register area
					}
					length := uint32(1 + g.Intn(0x280))
					if start+length > 0x1000000 {
						length = 0x1000000 - start
					}
					out := make([]byte, length)
					var n int
					if pan := vf.Try(func() { n = h.s.Bus.EaDump(start, start+length-1, out) }); pan != nil {
						cells["inter:dump-panicked"]++ // windows over unserved addresses are C13's concern
						continue
					}
					_ = n
					hist = append(hist, fmt.Sprintf("EaDump($%06x,+%d)", start, length))
					for i := uint32(0); i < length; i++ {
						cls, live, _, idx, ok := cellOf(start + i)
						if !ok {
							continue
						}
						if out[i] != live[idx] {
							r.Fail("interleaved-dump-"+cls, fmt.Sprintf("after %v: EaDump($%06x,+%d) position %d (address $%06x) = %02x but %s[$%x]=%02x", hist, start, length, i, start+i, out[i], cls, idx, live[idx]), nil)
							return
						}
					}
					cells["inter:dump"]++
					last = start + length - 1
					if (start+length-1)>>16 != start>>16 {
						cells["inter:dump-crosses-bank"]++
					}
				case 0, 1:
					cls, live, _, idx, ok := cellOf(a)
					if !ok {
						continue
					}
					v, _ := busRead(h.s, a)
					hist = append(hist, fmt.Sprintf("EaRead($%06x)", a))
					if v != live[idx] {
						r.Fail("interleaved-read-"+cls, fmt.Sprintf("after %v: EaRead($%06x)=%02x but %s[$%x]=%02x", hist, a, v, cls, idx, live[idx]), nil)
						return
					}
					cells["inter:read:"+cls]++
					last = a
				case 2:
					cls, live, shadow, idx, ok := cellOf(a)
					if !ok {
						continue
					}
					nv := live[idx] ^ byte(1+g.Intn(255))
					busWrite(h.s, a, nv)
					hist = append(hist, fmt.Sprintf("EaWrite($%06x,%02x)", a, nv))
					if live[idx] != nv {
						r.Fail("interleaved-write-"+cls, fmt.Sprintf("after %v: %s[$%x] is %02x, not the written %02x; first changed cell: %s", hist, cls, idx, live[idx], nv, h.diff()), nil)
						return
					}
					shadow[idx] = nv
					if d := h.diff(); d != "" {
						r.Fail("interleaved-stray-write", fmt.Sprintf("after %v: a cell other than the designated one changed: %s", hist, d), nil)
						return
					}
					cells["inter:write:"+cls]++
					last = a
				default:
					bank, off := byte(a>>16), uint16(a)
					var want [3]byte
					okAll := true
					for k := 0; k < 3; k++ {
						_, live, _, idx, ok := cellOf(uint32(bank)<<16 | uint32(off+uint16(k)))
						if !ok {
							okAll = false
							break
						}
						want[k] = live[idx]
					}
					if !okAll {
						continue
					}
					var v uint32
					if pan := vf.Try(func() { v = h.s.Bus.EaRead24_wrap(bank, off) }); pan != nil {
						r.Fail("interleaved-read24-panics", fmt.Sprintf("EaRead24_wrap($%02x,$%04x) over served addresses panicked: %v", bank, off, pan), nil)
						return
					}
					hist = append(hist, fmt.Sprintf("EaRead24_wrap($%02x,$%04x)", bank, off))
					if v != uint32(want[0])|uint32(want[1])<<8|uint32(want[2])<<16 {
						r.Fail("interleaved-read24", fmt.Sprintf("after %v: EaRead24_wrap=$%06x, designated cells hold %02x %02x %02x", hist, v, want[0], want[1], want[2]), nil)
						return
					}
					cells["inter:read24"]++
					last = uint32(bank)<<16 | uint32(off+2)
				}
			}
			r.Eval(int64(r.N(4000, 20000)))
			r.MergeCells(cells)
		})
	}
	r.Sample(map[string]interface{}{"bus": "$808000", "pak": "$000000", "expect": "System.ROM[0]"})
	r.Sample(map[string]interface{}{"bus": "$f00000", "pak": "$e00000", "expect": "System.SRAM[0]"})
	r.Sample(map[string]interface{}{"bus": "$001fff", "pak": "$f51fff", "expect": "System.WRAM[0x1fff]"})
	c11AccessesByInstruction(r, workers)
	if r.Phase("long-lived-system") {
		// one System that lives long: the host keeps swapping its own handler over windows of
		// the register area (which the mapper assigns to no memory class), tens of thousands of Attach calls in all; the
		// ROM/SRAM/WRAM map must stay the mapper's throughout
		nsys := r.N(2, 8)
		total := r.N(67000, 200000)
		r.Parallel(workers, nsys, func(w, si int) {
			g := r.Rand("longsys").Fork(uint64(si))
			h, err := newSysShadow(g, si%12)
			if err != nil {
				r.Fail("create-emulator", err.Error(), nil)
				return
			}
			cells := map[string]int64{}
			// 16-byte blocks of the register area, which the mapper assigns to no memory class
			var free []uint32
			for _, bank := range []uint32{0x00, 0x01, 0x21, 0x3F, 0x80, 0xBF} {
				for off := uint32(0x2000); off < 0x6000; off += 16 {
					if _, err := lorom.BusAddressToPak(bank<<16 | off); err != nil {
						free = append(free, (bank<<16|off)>>4)
					}
				}
			}
			if len(free) < 64 {
				r.Inconclusive("no mapper-unassigned window found in the register area for host handlers")
				return
			}
			pick := func() uint32 {
				for {
					var a uint32
					switch g.Intn(6) {
					case 0:
						a = uint32(g.Intn(0x40))<<16 | uint32(g.Intn(0x2000))
					case 1:
						a = 0x7E0000 + uint32(g.Intn(0x20000))
					case 2:
						a = uint32(0x70+g.Intn(2))<<16 | uint32(g.Intn(0x8000))
					case 3:
						a = uint32(0x80+g.Intn(0x40))<<16 | uint32(0x8000+g.Intn(0x8000))
					case 4:
						a = uint32(g.Intn(4))<<16 | 0x8000 | uint32(g.Intn(0x40)) // the regions attached first
					default:
						a = uint32(g.Intn(0x40))<<16 | uint32(0x8000+g.Intn(0x8000))
					}
					if _, err := lorom.BusAddressToPak(a); err == nil {
						return a
					}
				}
			}
			served := map[uint32]bool{}
			var addrs []uint32
			for len(addrs) < 512 {
				a := pick()
				if _, ok := busRead(h.s, a); ok {
					addrs = append(addrs, a)
					served[a] = true
				}
			}
			verify := func(n int, k int) bool {
				for i := 0; i < k; i++ {
					a := addrs[g.Intn(len(addrs))]
					p, _ := lorom.BusAddressToPak(a)
					cls, live, shadow, idx, ok := h.cell(p)
					if !ok {
						continue
					}
					v, sv := busRead(h.s, a)
					r.Eval(1)
					if !sv || v != live[idx] {
						r.Fail("long-lived-read-"+cls, fmt.Sprintf("after %d host Attach calls on one System: EaRead($%06x)=(%02x, served=%v) but %s[$%x]=%02x", n, a, v, sv, cls, idx, live[idx]), nil)
						return false
					}
					if cls != "rom" || g.Intn(4) == 0 {
						nv := live[idx] ^ byte(1+g.Intn(255))
						if g.Intn(3) == 0 && a>>16 != 0x7E {
							// the write is made by the emulated CPU (STA long from work RAM), inside a RunUntil
							// call, with or without a trace Logger attached
							prog := []byte{0x8F, byte(a), byte(a >> 8), byte(a >> 16), 0xEA}
							for j, x := range prog {
								h.s.WRAM[0x1F00+j], h.wram[0x1F00+j] = x, x
							}
							c := &h.s.CPU
							c.RK, c.PC, c.E, c.M, c.X, c.Stopped = 0x7E, 0x1F00, 0, 1, 1, false
							c.RA, c.RAl, c.RAh = uint16(nv), nv, 0
							var lg bytes.Buffer
							h.s.Logger = nil
							if g.Bool() {
								h.s.Logger = &lg
							}
							vf.Try(func() { h.s.RunUntil(0x7E1F04, 50) })
							h.s.Logger = nil
							cells["long:write-by-cpu-in-rununtil"]++
						} else {
							busWrite(h.s, a, nv)
						}
						if live[idx] != nv {
							r.Fail("long-lived-write-"+cls, fmt.Sprintf("after %d host Attach calls on one System: EaWrite($%06x,%02x) left %s[$%x]=%02x", n, a, nv, cls, idx, live[idx]), nil)
							return false
						}
						shadow[idx] = nv
					}
					cells["long:"+cls]++
				}
				return true
			}
			for n := 1; n <= total && !r.TooMany(); n++ {
				sb := free[g.Intn(len(free))]
				f := &fakeMem{id: n}
				if err := h.s.Bus.Attach(f, "host", sb<<4, sb<<4|15); err != nil {
					cells["long:attach-refused"]++
					continue
				}
				// the handler just attached answers in its window
				if v, ok := busRead(h.s, sb<<4|3); !ok || v != fakeVal(n, sb<<4|3) {
					cells["long:host-window-not-routed"]++ // C13's concern, counted here
				}
				k := 1
				if n%4096 == 0 || n == total {
					k = 512
				}
				if n%500 == 250 {
					// a caller that spells the range as (start, start+size): that end is not the last address
					// of a 16-byte block, the call is refused and must leave the map alone - in particular the
					// block that begins at "end", which may be the first block of a ROM or WRAM window
					st := []uint32{0x006000, 0x3F6000, 0x806000, 0x7DF000, 0x002000 - 0x10}[g.Intn(5)]
					size := []uint32{0x2000, 0x2000, 0x2000, 0x1000, 0x10}[g.Intn(5)]
					if st == 0x7DF000 {
						size = 0x1000
					}
					_ = h.s.Bus.Attach(&fakeMem{id: -n}, "cart-ram", st, st+size)
					cells["long:attach-with-exclusive-end"]++
					// look right behind the range
					a := st + size
					if p, err := lorom.BusAddressToPak(a); err == nil {
						if cls, live, _, idx, ok := h.cell(p); ok {
							if v, sv := busRead(h.s, a); sv && v != live[idx] {
								r.Fail("long-lived-read-"+cls, fmt.Sprintf("after a refused Attach($%06x,$%06x): EaRead($%06x)=%02x but %s[$%x]=%02x", st, st+size, a, v, cls, idx, live[idx]), nil)
								break
							}
						}
					}
				}
				if n%9000 == 2000 && si%2 == 1 {
					// a copy of the bus taken by value (a Bus is a value; a debugger or a save-state keeps one)
					// is re-wired over the console's own windows: the System's bus is not the copy
					cp := h.s.Bus
					for j := 0; j < 6; j++ {
						a := addrs[g.Intn(len(addrs))] &^ 15
						_ = cp.Attach(&fakeMem{id: -n}, "on-the-copy", a, a|15)
					}
					cells["long:bus-copy-rewired"]++
					k = 512
				}
				if n%9000 == 4500 && si%2 == 1 {
					// (every other System; the rest are never re-created, so that their buses really see all of
					// the Attach calls of a long life)
					// the host overlays a few segments of the console's own windows with its device (a patch
					// area, a watch region) and later re-creates the emulator: CreateEmulator builds the
					// LoROM map, whatever was attached in between
					for j := 0; j < 6; j++ {
						a := addrs[g.Intn(len(addrs))] &^ 15
						_ = h.s.Bus.Attach(&fakeMem{id: -n}, "overlay", a, a|15)
					}
					if err := h.s.CreateEmulator(); err != nil {
						r.Fail("create-emulator", "second CreateEmulator: "+err.Error(), nil)
						break
					}
					cells["long:emulator-recreated-after-overlay"]++
					k = 512
				}
				if !verify(n, k) {
					break
				}
				if n%16384 == 0 || n == total {
					if d := h.diff(); d != "" {
						r.Fail("long-lived-stray-write", fmt.Sprintf("after %d host Attach calls on one System: a cell other than the designated ones changed: %s", n, d), nil)
						break
					}
					cells[fmt.Sprintf("long:attach-count-%dk", n/1024)]++
				}
			}
			r.MergeCells(cells)
		})
	}
	if r.OnlyPhase == "" {
		r.Require("long:attach-count-64k")
		for _, c := range []string{"read:rom:00", "read:rom:80", "read:rom:b0", "read:sram:70", "read:sram:f0", "read:wram:70", "read:wram:00", "read:wram:80", "write:rom:30", "write:sram:f0", "write:wram:70", "inter:read24", "inter:read:wram", "inter:write:rom", "inter:read:sram"} {
			r.Require(c)
		}
	}
}
