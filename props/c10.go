package props

import (
	"bytes"
	"errors"
	"fmt"
	"io"
	"runtime"

	snes "github.com/alttpo/snes"

	"verif/internal/vf"
)

func init() { reg("C10", C10) }

// C10: shadow-copy monitor for ROM.BusReader / ROM.BusWriter.
func C10(r *vf.Run) {
	r.Rule = "every bank of images of 32-256 KiB (and one case in 128 a 2-8 MiB image, banks up to $FF) x boundary-directed offsets x read-chunk sizes x write-length histories drawn to end at, one before and beyond the bank end; the whole image is diffed against a shadow after every call; plus several readers/writers obtained from one ROM and used in interleaved order; a cell is (api, offset class, history shape, end position)"
	r.Assume = []string{"banks only partly inside the image are skipped (the statement speaks of banks inside the image)"}

	offClass := func(off uint32) string {
		switch {
		case off < 0x8000:
			return "below8000"
		case off == 0x8000:
			return "8000"
		case off >= 0xFFF0:
			return fmt.Sprintf("%04x", off)
		}
		return "mid"
	}

	type env struct {
		rom    *snes.ROM
		shadow []byte
	}
	diffOutside := func(e *env, lo, hi int) int { // first changed index outside [lo,hi), or -1
		c := e.rom.Contents
		if !bytes.Equal(c[:lo], e.shadow[:lo]) {
			for i := 0; i < lo; i++ {
				if c[i] != e.shadow[i] {
					return i
				}
			}
		}
		if !bytes.Equal(c[hi:], e.shadow[hi:]) {
			for i := hi; i < len(c); i++ {
				if c[i] != e.shadow[i] {
					return i
				}
			}
		}
		return -1
	}

	readAll := func(rd io.Reader, chunk int, maxBytes int) (got []byte, err error, calls int, contract string) {
		buf := make([]byte, chunk)
		for calls < maxBytes+10 {
			for i := range buf {
				buf[i] = 0xA5
			}
			n, e := rd.Read(buf)
			calls++
			if n < 0 || n > len(buf) {
				return got, e, calls, fmt.Sprintf("Read returned n=%d for a %d-byte buffer", n, len(buf))
			}
			got = append(got, buf[:n]...)
			if e != nil {
				return got, e, calls, ""
			}
			if n == 0 && chunk > 0 {
				// allowed by io.Reader but must not go on forever
				if calls > maxBytes+5 {
					return got, nil, calls, "Read keeps returning (0, nil)"
				}
			}
		}
		return got, nil, calls, "reader did not reach EOF within the window size"
	}

	caseFn := func(g *vf.Rng, ci int, cells map[string]int64) {
		nb := 1 + g.Intn(8)
		extra := 0
		if g.Intn(4) == 0 {
			extra = 1 + g.Intn(0x7FFF)
		}
		big := g.Intn(128) == 0
		if big {
			// a large cartridge: banks beyond $3F / $7F / $BF exist (4-8 MiB images)
			nb = []int{64, 65, 127, 128, 129, 192, 255, 256}[g.Intn(8)]
		}
		if g.Intn(8) == 0 {
			extra = []int{0x200, 0x1FF, 0x201, 0x400, 1, 0x7FFF}[g.Intn(6)] // e.g. a dump that still carries a 512-byte copier header
		}
		img := g.Bytes(nb*0x8000 + extra)
		if !big && g.Intn(6) == 0 {
			// a finished cartridge image: power-of-two size, complementary checksum pair holding the real
			// 16-bit sum of all bytes
			nb2 := []int{1, 2, 4, 8}[g.Intn(4)]
			img = g.Bytes(nb2 * 0x8000)
			nb = nb2
			img[0x7FDC], img[0x7FDD], img[0x7FDE], img[0x7FDF] = 0xFF, 0xFF, 0, 0
			var sum uint16
			for _, x := range img {
				sum += uint16(x)
			}
			img[0x7FDE], img[0x7FDF], img[0x7FDC], img[0x7FDD] = byte(sum), byte(sum>>8), byte(^sum), byte(^sum>>8)
			cells["image:sealed-checksum"]++
		}
		// the name is the caller's business (a file name, usually): it says nothing about the bytes
		name := []string{"c10", "game.sfc", "game.smc", "GAME.SWC", "x.fig", "rom.bin", "", "a.b.smc", "/tmp/dir.smc/game"}[g.Intn(9)]
		if ss := srcStrings(); len(ss) > 0 && g.Intn(8) == 0 {
			name = ss[g.Intn(len(ss))]
		}
		rom, err := newROMAnyWay(g.Intn(4), name, img)
		if err != nil {
			r.Fail("newrom", err.Error(), nil)
			return
		}
		e := &env{rom, append([]byte(nil), img...)}
		bank := uint32(g.Intn(nb))
		if big {
			bank = uint32([]int{nb - 1, nb - 1, nb / 2, 0x3F, 0x40, 0x7F, 0x80, 0xBF, 0xC0, g.Intn(nb)}[g.Intn(10)])
			if int(bank) >= nb {
				bank = uint32(nb - 1)
			}
			cells["big-image:bank>=40"]++
		}
		var off uint32
		switch g.Intn(8) {
		case 0:
			off = uint32(g.Intn(0x8000)) // below $8000
			if g.Bool() {
				off = []uint32{0, 0x7FFF, 0x7FFE, 0x4000}[g.Intn(4)]
			}
		case 1:
			off = 0x8000
		case 2:
			off = 0x8001
		case 3, 4, 5:
			off = 0xFFF0 + uint32(g.Intn(16))
		default:
			off = 0x8000 + uint32(g.Intn(0x8000))
		}
		addr := bank<<16 | off
		oc := offClass(off)
		desc := func() string {
			return fmt.Sprintf("image=%d bytes, bus $%06x", len(img), addr)
		}

		if off < 0x8000 {
			rd := rom.BusReader(addr)
			buf := make([]byte, 1+g.Intn(8))
			n, err := rd.Read(buf)
			if n != 0 || err != io.ErrUnexpectedEOF {
				r.Fail("low-half-read", fmt.Sprintf("%s: Read=(%d,%v) want (0, unexpected EOF)", desc(), n, err), nil)
			}
			wr := rom.BusWriter(addr)
			n, err = wr.Write(g.Bytes(1 + g.Intn(8)))
			if n != 0 || err != io.ErrUnexpectedEOF {
				r.Fail("low-half-write", fmt.Sprintf("%s: Write=(%d,%v) want (0, unexpected EOF)", desc(), n, err), nil)
			}
			if !bytes.Equal(rom.Contents, e.shadow) {
				r.Fail("low-half-modifies", desc()+": image changed", nil)
			}
			r.Eval(2)
			cells["low:"+oc]++
			return
		}
		lo := int(bank<<15 | (off - 0x8000))
		hi := int(bank<<15) + 0x8000
		win := hi - lo

		// ---- reader
		chunk := []int{1, 2, 3, 16, 4096, win, win + 1, 0x10000}[g.Intn(8)]
		if chunk == 0 {
			chunk = 1
		}
		rd := rom.BusReader(addr)
		got, rerr, _, contract := readAll(rd, chunk, win)
		want := e.shadow[lo:hi]
		r.Eval(1)
		switch {
		case contract != "":
			r.Fail("reader-contract", desc()+": "+contract, nil)
		case !errors.Is(rerr, io.EOF) || rerr != io.EOF:
			r.Fail("reader-no-eof", fmt.Sprintf("%s: reader ended with %v, want io.EOF", desc(), rerr), nil)
		case bytes.Equal(got, want):
		case len(got) == len(want)-1 && bytes.Equal(got, want[:len(want)-1]):
			r.Fail("reader-omits-last-byte-of-bank", fmt.Sprintf("%s: reader returned %d bytes then EOF; the window to the bank end has %d (last byte of the bank never returned)", desc(), len(got), len(want)), nil)
		default:
			r.Fail("reader-content", fmt.Sprintf("%s chunk=%d: reader returned %d bytes, want %d; first diff at %d", desc(), chunk, len(got), len(want), firstDiff(got, want)), nil)
		}
		if n, err := rd.Read(make([]byte, 4)); n != 0 || err != io.EOF {
			r.Fail("reader-after-eof", fmt.Sprintf("%s: Read after EOF = (%d,%v)", desc(), n, err), nil)
		}
		if !bytes.Equal(rom.Contents, e.shadow) {
			r.Fail("reader-modifies", desc()+": reading changed the image", nil)
		}
		cells["read:"+oc+":chunk"+fmt.Sprint(min(chunk, 9999))]++
		if g.Intn(3) == 0 {
			if msg := readerCapabilities(g, rom.BusReader(addr), want, cells); msg != "" {
				r.Fail("reader-exposes-outside-window", desc()+": a handle from BusReader, used through the other methods of its type: "+msg, nil)
			}
		}

		// ---- writer: a history of write lengths
		var lens []int
		shape := g.Intn(8)
		switch shape {
		case 7: // one huge write (>= 64 KiB): far beyond any bank window, must be refused as a whole
			lens = []int{[]int{0x10000, 0x10000 + g.Intn(win+1), 0x10000 + win, 0x20000 + g.Intn(0x8000), 0x24000}[g.Intn(5)], 1}
		case 0: // ones up to / beyond the end
			for i := 0; i < min(win, 20)+2; i++ {
				lens = append(lens, 1)
			}
		case 1: // twos
			for i := 0; i < min(win, 40)/2+2; i++ {
				lens = append(lens, 2)
			}
		case 2: // one write ending exactly at / one before / one beyond the end
			lens = []int{win + []int{0, -1, 1, 2, -2}[g.Intn(5)]}
		case 3: // n, then 1, then 1
			lens = []int{max(win-1-g.Intn(2), 0), 1, 1, 1}
		case 4: // 4 at end-3 style
			k := 1 + g.Intn(8)
			lens = []int{max(win-k+g.Intn(3)-1, 0), k, 1}
		case 5: // zero-length writes interleaved
			lens = []int{0, g.Intn(win + 1), 0, 1 + g.Intn(4), 0}
		default:
			for i := 0; i < 1+g.Intn(6); i++ {
				lens = append(lens, g.Intn(min(win, 300)+4))
			}
		}
		wr := rom.BusWriter(addr)
		cur := lo
		endpos := "inside"
		for wi, n := range lens {
			if n < 0 {
				n = 0
			}
			p := g.Bytes(n)
			how := g.Intn(5)
			if n > 0 && cur+n <= len(rom.Contents) && g.Intn(5) == 0 {
				// writing back what is already there (an unchanged block, a re-applied patch), or that with
				// one byte changed: what the image held must not matter to where the next write goes
				p = append([]byte(nil), rom.Contents[cur:cur+n]...)
				if g.Bool() {
					p[g.Intn(n)] ^= 0x40
				}
				cells["write:payload-equals-image"]++
			}
			if n > 0 && n < 4000 && g.Intn(6) == 0 && how < 3 {
				// the source is itself a view of the image that overlaps the destination
				// (moving a table inside the ROM): the bytes stored must be p's bytes at call time
				src := cur - 1 - g.Intn(min(n, 16))
				if src < 0 {
					src = 0
				}
				if src+n <= len(rom.Contents) {
					p = rom.Contents[src : src+n]
					cells["write:source-aliases-image"]++
				}
			}
			pc := append([]byte(nil), p...)
			// the bytes reach the writer by a direct Write or through io.Copy from a source that is
			// only a Reader (delivering everything at once or in pieces)
			var wn int
			var werr error
			switch how {
			case 3:
				c := max(len(p), 1)
				if g.Bool() {
					c = 1 + g.Intn(c)
				}
				n64, err := io.Copy(wr, &plainReader{p: p, chunk: c})
				wn, werr = int(n64), err
				cells["write:via-io.Copy-plain-reader"]++
			case 4:
				n64, err := io.Copy(wr, io.LimitReader(bytes.NewReader(p), int64(len(p))))
				wn, werr = int(n64), err
				cells["write:via-io.Copy-limit-reader"]++
			default:
				wn, werr = wr.Write(p)
			}
			p = pc // what was handed over
			r.Eval(1)

			fits := cur+n <= hi
			hist := fmt.Sprintf("%s write#%d len=%d at window position %d/%d: (%d,%v)", desc(), wi, n, cur-lo, win, wn, werr)
			if wn < 0 || wn > n {
				r.Fail("writer-count", hist+": impossible count", lens)
				break
			}
			// what was stored?
			if i := diffOutside(e, cur, min(cur+wn, hi)); i >= 0 {
				where := "inside the window"
				if i < lo || i >= hi {
					where = "OUTSIDE the window"
				}
				r.Fail("writer-stray-store", fmt.Sprintf("%s: byte at file offset %d changed, %s, beyond the %d bytes reported", hist, i, where, wn), lens)
				copy(rom.Contents, e.shadow)
				break
			}
			if cur+wn > hi || !bytes.Equal(rom.Contents[cur:cur+wn], p[:wn]) {
				// n reported but not all of them stored
				key := "writer-count"
				if werr == nil {
					key = "writer-silent-partial"
				}
				r.Fail(key, hist+": reported bytes were not all stored at the cursor", lens)
				copy(rom.Contents, e.shadow)
				break
			}
			copy(e.shadow[cur:], p[:wn])
			switch {
			case werr == nil && wn != n:
				r.Fail("writer-silent-partial", hist+": short write without an error", lens)
			case werr == nil && !fits:
				r.Fail("writer-silent-partial", hist+": write beyond the bank end reported success", lens)
			case werr != nil && fits:
				key := "writer-refuses-fitting"
				if cur+n == hi {
					key = "writer-refuses-last-byte-of-bank"
				}
				r.Fail(key, hist+": a write that fits the window was refused", lens)
			}
			cur += wn
			if werr != nil {
				endpos = "refused"
				if werr != io.ErrUnexpectedEOF && werr != io.ErrShortWrite {
					r.Cell("write:other-error:" + werr.Error())
				}
			}
			if cur == hi {
				endpos = "exactly-at-end"
			} else if cur == hi-1 && endpos == "inside" {
				endpos = "one-before-end"
			}
		}
		// read back what was written
		got, _, _, _ = readAll(rom.BusReader(addr), 4096, win)
		want = e.shadow[lo:hi]
		if !bytes.Equal(got, want) && !(len(got) == len(want)-1 && bytes.Equal(got, want[:len(got)])) {
			r.Fail("readback", desc()+": data written through the writer is not what the reader returns", lens)
		}
		cells[fmt.Sprintf("write:%s:shape%d:%s", oc, shape, endpos)]++
		if ci < 4 {
			r.Sample(map[string]interface{}{"image_bytes": len(img), "bus_addr": fmt.Sprintf("$%06x", addr), "read_chunk": chunk, "write_lengths": lens, "ended": endpos})
		}
	}

	if r.Phase("histories") {
		chunks := r.N(64, 2000)
		r.Parallel(runtime.NumCPU(), chunks, func(w, ci int) {
			g := r.Rand("hist").Fork(uint64(ci))
			cells := map[string]int64{}
			for k := 0; k < 400 && !r.TooMany(); k++ {
				if pan := vf.Try(func() { caseFn(g, ci*400+k, cells) }); pan != nil {
					r.Fail("api-panics", fmt.Sprintf("reader/writer on a bank inside the image panicked: %v", pan), nil)
				}
			}
			r.MergeCells(cells)
		})
	}
	if r.Phase("interleaved-handles") {
		// several readers and writers obtained from ONE ROM and used in interleaved order:
		// each must keep serving its own window
		chunks := r.N(32, 1000)
		r.Parallel(runtime.NumCPU(), chunks, func(w, ci int) {
			g := r.Rand("multi").Fork(uint64(ci))
			cells := map[string]int64{}
			for k := 0; k < 100 && !r.TooMany(); k++ {
				nb := 2 + g.Intn(6)
				img := g.Bytes(nb * 0x8000)
				rom, err := newROMAnyWay(g.Intn(4), "c10m", img)
				if err != nil {
					r.Fail("newrom", err.Error(), nil)
					continue
				}
				shadow := append([]byte(nil), img...)
				type handle struct {
					rd     io.Reader
					wr     io.Writer
					addr   uint32
					lo, hi int
					cur    int // next position in the window
					done   bool
					got    []byte
				}
				nh := 2 + g.Intn(3)
				if g.Intn(8) == 0 {
					nh = 10 + g.Intn(12)
				}
				var hs []*handle
				usedBanks := map[uint32]bool{}
				var desc []string
				for i := 0; i < nh; i++ {
					bank := uint32(g.Intn(nb))
					off := uint32(0x8000 + g.Intn(0x8000))
					if g.Intn(3) == 0 {
						off = 0xFFF0 + uint32(g.Intn(16))
					}
					h := &handle{addr: bank<<16 | off, lo: int(bank<<15 | (off - 0x8000)), hi: int(bank<<15) + 0x8000}
					h.cur = h.lo
					// writers get a bank of their own so that no live reader window changes under it
					if g.Intn(3) == 0 && !usedBanks[bank] {
						h.wr = rom.BusWriter(h.addr)
						desc = append(desc, fmt.Sprintf("w%d=BusWriter($%06x)", i, h.addr))
					} else {
						writerBank := false
						for _, o := range hs {
							if o.wr != nil && o.addr>>16 == bank {
								writerBank = true
							}
						}
						if writerBank {
							bank = (bank + 1) % uint32(nb)
							h.addr = bank<<16 | off
							h.lo, h.hi = int(bank<<15|(off-0x8000)), int(bank<<15)+0x8000
							h.cur = h.lo
							for _, o := range hs {
								if o.wr != nil && o.addr>>16 == bank {
									h = nil
									break
								}
							}
							if h == nil {
								continue
							}
						}
						h.rd = rom.BusReader(h.addr)
						desc = append(desc, fmt.Sprintf("r%d=BusReader($%06x)", i, h.addr))
					}
					usedBanks[h.addr>>16] = true
					hs = append(hs, h)
				}
				if len(hs) < 2 {
					continue
				}
				r.Eval(1)
				bad := false
				for step := 0; step < 60 && !bad; step++ {
					h := hs[g.Intn(len(hs))]
					if h.done {
						continue
					}
					if g.Intn(40) == 0 {
						// the owner expands the image (the usual idiom: append another bank to Contents); the
						// image is then a new array, and it is the image that writers write to
						extra := g.Bytes(0x8000)
						rom.Contents = append(rom.Contents, extra...)
						shadow = append(shadow, extra...)
						desc = append(desc, "image expanded by one bank")
						cells["multi:image-expanded"]++
					}
					if h.rd != nil {
						buf := make([]byte, 1+g.Intn(64))
						n, err := h.rd.Read(buf)
						want := shadow[h.cur:min(h.cur+n, h.hi)]
						if h.cur+n > h.hi || !bytes.Equal(buf[:n], want) {
							r.Fail("interleaved-reader", fmt.Sprintf("with handles %v live on one ROM, reader for $%06x returned bytes that are not the next bytes of its own window (position %d/%d, n=%d)", desc, h.addr, h.cur-h.lo, h.hi-h.lo, n), desc)
							bad = true
							break
						}
						h.cur += n
						if err != nil {
							h.done = true
							if err != io.EOF || h.cur < h.hi-1 {
								key := "interleaved-reader"
								r.Fail(key, fmt.Sprintf("with handles %v live on one ROM, reader for $%06x ended with %v after %d of %d bytes", desc, h.addr, err, h.cur-h.lo, h.hi-h.lo), desc)
								bad = true
							} else if h.cur == h.hi-1 {
								r.Fail("reader-omits-last-byte-of-bank", fmt.Sprintf("reader for $%06x stopped one byte before the end of its bank", h.addr), nil)
							}
						}
						cells["multi:read"]++
					} else {
						p := g.Bytes(1 + g.Intn(48))
						n, err := h.wr.Write(p)
						fits := h.cur+len(p) <= h.hi
						if (err == nil) != fits || (err == nil && n != len(p)) {
							r.Fail("interleaved-writer", fmt.Sprintf("with handles %v live on one ROM, writer for $%06x: Write(%d bytes) at window position %d/%d = (%d,%v)", desc, h.addr, len(p), h.cur-h.lo, h.hi-h.lo, n, err), desc)
							bad = true
							break
						}
						copy(shadow[h.cur:], p[:n])
						h.cur += n
						if err != nil {
							h.done = true
						}
						if !bytes.Equal(rom.Contents, shadow) {
							r.Fail("interleaved-writer", fmt.Sprintf("with handles %v live on one ROM, a write through the writer for $%06x landed at file offset %d", desc, h.addr, firstDiff(rom.Contents, shadow)), desc)
							bad = true
							break
						}
						cells["multi:write"]++
					}
				}
				if !bad {
					cells[fmt.Sprintf("multi:handles%d", len(hs))]++
				}
				if ci == 0 && k == 0 {
					r.Sample(map[string]interface{}{"one_rom_handles": desc})
				}
			}
			r.MergeCells(cells)
		})
	}
	if r.OnlyPhase == "" {
		r.Require("multi:read")
		r.Require("multi:write")
		r.Require("low:below8000")
		r.Require("write:ffff:shape0:exactly-at-end")
	}
}

// plainReader is an io.Reader and nothing else (no WriterTo), handing out at most chunk bytes per call.
type plainReader struct {
	p     []byte
	chunk int
}

func (r *plainReader) Read(b []byte) (int, error) {
	if len(r.p) == 0 {
		return 0, io.EOF
	}
	n := min(len(b), min(r.chunk, len(r.p)))
	copy(b, r.p[:n])
	r.p = r.p[n:]
	return n, nil
}

func firstDiff(a, b []byte) int {
	for i := 0; i < len(a) && i < len(b); i++ {
		if a[i] != b[i] {
			return i
		}
	}
	return min(len(a), len(b))
}
