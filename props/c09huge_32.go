//go:build !(linux && (amd64 || arm64 || ppc64le || riscv64 || s390x))

package props

import "verif/internal/vf"

// images of 2^31 bytes and more do not exist where int has 32 bits
func c09HugeImages(r *vf.Run) {}
