package props

import (
	"fmt"

	"verif/internal/mem"
	"verif/internal/ref"
	"verif/internal/vf"
)

// Long runs: tens of thousands of consecutive steps that stay on one instruction or one tiny
// loop - a full-bank block move, a program parked on a branch to itself, a counting loop running a
// 16-bit register all the way round, a NOP slide that wraps the program counter within its bank.
// Counters, caches and "is it stuck?" heuristics only show themselves at this length.

var longRunKinds = []string{"mvn-full", "mvp-full", "mvn-ffff-less-1", "mvn-8bit-index", "mvp-same-bank", "bra-self", "jmp-self", "jml-self", "brl-self", "bne-self",
	"inx-loop", "dec-a-loop", "dey-8bit-loop", "nop-slide-wraps-bank", "push-loop-stack-wraps", "jsr-self-recursion", "jsl-self-recursion", "jsr-rts-deep-then-unwind",
	"io-space-poke-then-peek", "io-space-poke-peek-each", "io-space-poke-twice-then-peek"}

// longRunCase builds one long run: start state, image, and the number of steps to drive.
func longRunCase(g *vf.Rng, kind string) (ref.State, *mem.Image, int) {
	s := genState(g)
	s.P &^= 0x08
	if kind == "bra-self" || kind == "bne-self" || kind == "jmp-self" || kind == "nop-slide-wraps-bank" {
		if g.Intn(3) == 0 {
			s = genEmuState(g)
			s.P &^= 0x08
		}
	}
	img := mem.New(g.U64())
	s.K = byte(1 + g.Intn(0x7E))
	s.PC = uint16(0x0200 + g.Intn(0xF000))
	k := uint32(s.K) << 16
	at := s.PC
	put := func(b ...byte) {
		for _, x := range b {
			img.Ov[k|uint32(at)] = x
			at++
		}
	}
	otherBank := func() byte {
		for {
			b := g.U8()
			if b != s.K && b != 0 {
				return b
			}
		}
	}
	steps := 65536 + 3 + g.Intn(5000)
	switch kind {
	case "mvn-full", "mvp-full", "mvn-ffff-less-1", "mvn-8bit-index", "mvp-same-bank":
		s.E = false
		s.P &^= 0x30
		s.A = 0xFFFF
		if kind == "mvn-ffff-less-1" {
			s.A = 0xFFFE - uint16(g.Intn(3))
		}
		if kind == "mvn-8bit-index" {
			s.P |= 0x10
			s.X &= 0xFF
			s.Y &= 0xFF
		}
		src, dst := otherBank(), otherBank()
		if kind == "mvp-same-bank" {
			dst = src
		}
		op := byte(0x54)
		if kind == "mvp-full" || kind == "mvp-same-bank" {
			op = 0x44
		}
		put(op, dst, src)
		put(0xEA, 0xEA, 0xDB) // NOP NOP STP
	case "bra-self":
		put(0x80, 0xFE)
	case "bne-self":
		s.P &^= 0x02
		put(0xD0, 0xFE)
	case "brl-self":
		put(0x82, 0xFD, 0xFF)
	case "jmp-self":
		put(0x4C, byte(s.PC), byte(s.PC>>8))
	case "jml-self":
		put(0x5C, byte(s.PC), byte(s.PC>>8), s.K)
	case "inx-loop": // INX ; BNE -3 ; STP
		s.E = false
		s.P &^= 0x10
		s.X = uint16(1 + g.Intn(3))
		put(0xE8, 0xD0, 0xFD, 0xDB)
		steps = 2*65536 + 8
	case "dec-a-loop": // DEC A ; BNE -3 ; STP
		s.E = false
		s.P &^= 0x20
		s.A = 0xFFFF - uint16(g.Intn(3))
		put(0x3A, 0xD0, 0xFD, 0xDB)
		steps = 2*65536 + 8
	case "dey-8bit-loop": // DEY ; BRA -3 : the 8-bit register goes round 300 times
		s.P |= 0x10
		s.X &= 0xFF
		s.Y &= 0xFF
		put(0x88, 0x80, 0xFD)
		steps = 2 * 256 * 150
	case "nop-slide-wraps-bank":
		// the whole bank is NOPs except one STP just before the start, reached after the PC wraps
		for a := 0; a < 0x10000; a++ {
			img.Ov[k|uint32(a)] = 0xEA
		}
		img.Ov[k|uint32(s.PC-1)] = 0xDB
		steps = 65536 + 4
	case "jsr-self-recursion": // JSR * : a routine that calls itself for ever, two bytes of stack a call
		s.E = false
		s.S = uint16(0x0400 + g.Intn(0xF000))
		put(0x20, byte(s.PC), byte(s.PC>>8))
		steps = 40000 + g.Intn(2000)
	case "jsl-self-recursion": // JSL *
		s.E = false
		s.S = uint16(0x0400 + g.Intn(0xF000))
		put(0x22, byte(s.PC), byte(s.PC>>8), s.K)
		steps = 30000 + g.Intn(2000)
	case "jsr-rts-deep-then-unwind":
		// f: DEX ; BEQ done ; JSR f ; done: RTS   with X = 1000: a thousand nested calls, then a thousand returns
		s.E = false
		s.P &^= 0x10
		s.X = uint16(300 + g.Intn(1500))
		s.S = uint16(0x2000 + g.Intn(0xD000))
		// entry: JSR f ; STP
		f := s.PC + 4
		put(0x20, byte(f), byte(f>>8), 0xDB)
		put(0xCA, 0xF0, 0x03, 0x20, byte(f), byte(f>>8), 0x60)
		steps = int(s.X)*5 + 16
	case "io-space-poke-then-peek", "io-space-poke-peek-each", "io-space-poke-twice-then-peek":
		// What console software does all day: stores to and loads from the I/O space $2000-$5FFF of a
		// system bank (PPU, APU, WRAM port, joypads, CPU registers incl. multiplier/divider, DMA, and
		// what cartridge chips put there). Every address of the space is written (ascending or
		// descending, bytes or words, through the data bank or a long address), then every address is
		// read. To the CPU core these are plain memory accesses.
		s.E = false
		s.P &^= 0x10 // 16-bit index
		s.K = byte(0x40 + g.Intn(0x3E))
		s.PC = uint16(0x0200 + g.Intn(0xE000))
		k = uint32(s.K) << 16
		at = s.PC
		bank := byte(g.Intn(0x40))
		if g.Bool() {
			bank |= 0x80
		}
		long := g.Bool()
		if !long {
			s.DBR = bank
		}
		a16 := s.P&0x20 == 0
		down := g.Bool()
		first, last, step := uint16(0), uint16(0x4000), byte(0xE8) // INX
		if down {
			first, last, step = 0x3FFF, 0xFFFF, 0xCA // DEX
		}
		salt := g.U8()
		store := func() {
			if long {
				put(0x9F, 0x00, 0x20, bank) // STA $bb2000,X
			} else {
				put(0x9D, 0x00, 0x20) // STA $2000,X
			}
		}
		load := func() {
			if long {
				put(0xBF, 0x00, 0x20, bank) // LDA $bb2000,X
			} else {
				put(0xBD, 0x00, 0x20) // LDA $2000,X
			}
		}
		loop := func(body func()) {
			put(0xA2, byte(first), byte(first>>8)) // LDX #first
			top := at
			body()
			put(step)
			put(0xE0, byte(last), byte(last>>8)) // CPX #last
			put(0xD0, byte(int(top)-int(at)-2))  // BNE top
		}
		value := func() {
			put(0x8A) // TXA
			if a16 {
				put(0x49, salt, salt^0x5A) // EOR #
			} else {
				put(0x49, salt)
			}
		}
		perLoop := 16384
		switch kind {
		case "io-space-poke-then-peek":
			loop(func() { value(); store() })
			loop(load)
			steps = perLoop*6 + perLoop*4 + 8
		case "io-space-poke-peek-each":
			loop(func() { value(); store(); load() })
			steps = perLoop*7 + 8
		default:
			loop(func() { value(); store() })
			salt ^= 0xA7
			loop(func() { value(); put(0x1A); store() }) // INC A : other values the second time
			loop(load)
			steps = perLoop*6 + perLoop*7 + perLoop*4 + 10
		}
		put(0xDB)
	case "push-loop-stack-wraps": // PHA ; BRA -3 : the stack pointer goes all the way round bank 0
		s.E = false
		put(0x48, 0x80, 0xFD)
		steps = 2*65536 + 10
		if s.P&0x20 == 0 {
			steps = 65536 + 10
		}
	}
	return s, img, steps
}

// longRunDiff drives both interpreters through one long run, comparing the architectural state
// after every step and the memory at intervals and at the end.
func (w *diffWorker) longRun(kind string, s0 ref.State, base *mem.Image, steps int, g *vf.Rng) {
	mp, ma := base.Clone(), base.Clone()
	mp.NoRdSet, ma.NoRdSet = true, true
	w.rig.loadPrim(s0, false, g)
	w.rig.loadAltFromPrim()
	w.skipMem = true
	defer func() { w.skipMem = false }()
	detail := func(step int, pre ref.State) func() interface{} {
		return func() interface{} {
			return map[string]interface{}{"long_run": kind, "program_start": s0.String(), "image_seed": base.Seed, "step": step, "pre_step_state": pre.String()}
		}
	}
	for step := 0; step < steps; step++ {
		pre := absPrim(&w.rig.prim)
		op := mp.Peek(uint32(pre.K)<<16 | uint32(pre.PC))
		w.skipMem = step%8192 != 8191 && step != steps-1
		rp, ra := w.stepBoth(mp, ma)
		w.r.Eval(1)
		if !w.compareSides(op, pre, rp, ra, mp, ma, fmt.Sprintf("long run %s step %d", kind, step), detail(step, pre)) {
			return
		}
		if rp.stopped {
			w.skipMem = false
			w.compareSides(op, pre, rp, ra, mp, ma, fmt.Sprintf("long run %s end", kind), detail(step, pre))
			w.cells["long:"+kind+":reached-stp"]++
			if step < 65535 && kind != "jsr-rts-deep-then-unwind" {
				w.r.Fail("long-run-stopped-early", fmt.Sprintf("long run %s: both interpreters report stopped after only %d steps | start={%v}", kind, step+1, s0), detail(step, pre)())
			}
			break
		}
	}
	w.cells["long:"+kind]++
}

// longRunModel: the same runs against the reference model.
func (w *c01worker) longRun(kind string, s0 ref.State, base *mem.Image, steps int, g *vf.Rng) {
	s0.E = false // native mode only here
	mr, mp, ma := base.Clone(), base.Clone(), base.Clone()
	sr := s0
	w.rig.loadPrim(s0, false, g)
	w.rig.loadAltFromPrim()
	for step := 0; step < steps; step++ {
		pre := sr
		mr.ResetStep()
		mp.ResetStep()
		ma.ResetStep()
		inf := ref.Step(&sr, mem.RefMem{M: mr})
		if hazard(mr, inf, pre) {
			w.extra["skipped_hazard"]++
			return
		}
		rp := w.rig.stepPrim(mp)
		ra := w.rig.stepAlt(ma)
		ctx := func() interface{} {
			return map[string]interface{}{"long_run": kind, "program_start": s0.String(), "image_seed": base.Seed, "step": step, "pre_step_state": pre.String()}
		}
		name := ref.MnemNames[inf.M] + " " + ref.ModeNames[inf.Mode]
		full := step%8192 == 8191 || step == steps-1
		for _, side := range []struct {
			who string
			st  ref.State
			m   *mem.Image
			res stepRes
		}{{"prim", absPrim(&w.rig.prim), mp, rp}, {"alt", absAlt(w.rig.alt), ma, ra}} {
			if side.res.pan != nil {
				w.r.Fail(fmt.Sprintf("%s:%s:PANIC", side.who, ref.ModeNames[inf.Mode]), fmt.Sprintf("long run %s step %d %s panicked: %v | pre={%v}", kind, step, name, side.res.pan, pre), ctx())
				return
			}
			if d := diffState(sr, side.st); len(d) > 0 {
				w.r.Fail(fmt.Sprintf("%s:%s:long-run", side.who, name), fmt.Sprintf("long run %s step %d: %s %s: %v differ: model={%v} got={%v} | pre={%v}", kind, step, side.who, name, d, sr, side.st, pre), ctx())
				return
			}
			// this step's writes, and everything at intervals
			for a := range mr.SWr {
				if side.m.Peek(a) != mr.Peek(a) {
					w.r.Fail(fmt.Sprintf("%s:%s:MEM", side.who, name), fmt.Sprintf("long run %s step %d: %s %s: memory differs at $%06x | pre={%v}", kind, step, side.who, name, a, pre), ctx())
					return
				}
			}
			if len(side.m.SWr) != len(mr.SWr) || full {
				if a, same := mem.SameWrites(mr, side.m); !same {
					w.r.Fail(fmt.Sprintf("%s:%s:MEM", side.who, name), fmt.Sprintf("long run %s step %d: %s %s: memory differs at $%06x | pre={%v}", kind, step, side.who, name, a, pre), ctx())
					return
				}
			}
		}
		w.r.Eval(2)
		if inf.M == ref.STP {
			w.cells["long:"+kind+":reached-stp"]++
			break
		}
	}
	w.cells["long:"+kind]++
}
