package props

import (
	"fmt"
	"runtime"
	"strings"

	"github.com/alttpo/snes/asm"

	"verif/internal/vf"
)

func init() { reg("C06", C06) }

// run a history on a fresh emitter with a roomy buffer, checking each call against the shadow.
// Returns the emitter, the shadow and false if a per-call expectation failed.
func runHistory(r *vf.Run, calls []hcall, listing bool, capacity int, tag string) (*asm.Emitter, *shadow, []byte, bool) {
	buf := make([]byte, capacity, capacity+(capacity%3)*8) // (two thirds of the targets have spare capacity behind their length)
	for i := range buf {
		buf[i] = 0xCC
	}
	e := asm.NewEmitter(buf, listing)
	sh := newShadow(listing)
	for i, c := range calls {
		legal := sh.legal(c)
		var before emObs
		names := []string(nil)
		if !legal {
			names = labelNames(calls)
			before = observe(e, names)
		}
		pcBefore := e.PC()
		pan := invoke(e, c)
		if legal {
			if pan != nil {
				r.Fail(tag+"-legal-call-refused", fmt.Sprintf("call #%d %s panicked: %v", i, c, pan), histStrings(calls[:i+1]))
				return e, sh, buf, false
			}
			if c.Op == "label" {
				if v, ok := e.GetLabel(c.S); !ok || v != pcBefore {
					r.Fail(tag+"-label-address", fmt.Sprintf("Label(%q) at PC $%06x but GetLabel=($%06x,%v)", c.S, pcBefore, v, ok), histStrings(calls[:i+1]))
					return e, sh, buf, false
				}
			}
			sh.apply(c)
			if e.PC() != sh.addr || e.Len() != len(sh.code) {
				r.Fail(tag+"-pc-len", fmt.Sprintf("after call #%d %s: PC=$%06x Len=%d, expected PC=$%06x Len=%d", i, c, e.PC(), e.Len(), sh.addr, len(sh.code)), histStrings(calls[:i+1]))
				return e, sh, buf, false
			}
		} else {
			what := "duplicate-label"
			if c.Op == "ins" {
				what = "width-guard"
			}
			if pan == nil {
				r.Fail(tag+"-"+what+"-accepted", fmt.Sprintf("call #%d %s must be rejected but was accepted", i, c), histStrings(calls[:i+1]))
				return e, sh, buf, false
			}
			if d := before.diff(observe(e, names)); d != "" {
				r.Fail(tag+"-"+what+"-changed-state", fmt.Sprintf("rejected call #%d %s changed state: %s", i, c, d), histStrings(calls[:i+1]))
				return e, sh, buf, false
			}
		}
	}
	if string(e.Bytes()) != string(sh.code) {
		r.Fail(tag+"-bytes", fmt.Sprintf("emitted bytes differ from the shadow at offset %d", firstDiff(e.Bytes(), sh.code)), histStrings(calls))
		return e, sh, buf, false
	}
	return e, sh, buf, true
}

// runHistoryTree: the same history, but stretches of it reach the emitter through clones (clones of
// clones, sibling candidates of which one is kept, clone targets in the parent's own buffer), as a
// code generator assembling fragments does. The shadow is fed the plain sequence.
func runHistoryTree(r *vf.Run, g *vf.Rng, calls []hcall, listing bool, capacity int, tag string, cells map[string]int64) (*asm.Emitter, *shadow, []byte, bool) {
	buf := make([]byte, capacity)
	for i := range buf {
		buf[i] = 0xCC
	}
	e := asm.NewEmitter(buf, listing)
	sh := newShadow(listing)
	for _, c := range calls {
		if sh.legal(c) {
			sh.apply(c)
		}
	}
	t := &cloneTree{g: g, cells: cells, parentLabels: true, all: calls}
	if pan := vf.Try(func() { t.feed(e, buf, calls, 0) }); pan != nil {
		r.Fail(tag+"-clone-tree-panic", fmt.Sprintf("emitting through %s panicked: %v", t.describe(), pan), map[string]interface{}{"calls": histStrings(calls), "tree": t.log})
		return e, sh, buf, false
	}
	if e.PC() != sh.addr || e.Len() != len(sh.code) {
		r.Fail(tag+"-clone-tree-pc-len", fmt.Sprintf("emitting through %s: PC=$%06x Len=%d, expected PC=$%06x Len=%d", t.describe(), e.PC(), e.Len(), sh.addr, len(sh.code)), map[string]interface{}{"calls": histStrings(calls), "tree": t.log})
		return e, sh, buf, false
	}
	if string(e.Bytes()) != string(sh.code) {
		r.Fail(tag+"-clone-tree-bytes", fmt.Sprintf("emitting through %s: emitted bytes differ from the shadow at offset %d", t.describe(), firstDiff(e.Bytes(), sh.code)), map[string]interface{}{"calls": histStrings(calls), "tree": t.log})
		return e, sh, buf, false
	}
	return e, sh, buf, true
}

func C06(r *vf.Run) {
	r.Rule = "generated emitter call histories (1-400 calls: instructions, data, labels, all 8 label-taking methods, forward/backward/multiple/missing references, duplicate-label attempts) with padding chosen so that branch displacements -129,-128,-127,-2,0,+1,+126,+127,+128 occur, plus programs spanning almost a whole bank with references around the +-32 KiB and +-64 KiB marks; six base-address classes; target buffers exactly full, with 1-3 spare bytes, and roomy; a shadow model predicts the Finalize outcome and every byte, also for a second Finalize and for Finalize after further emission; a cell is (reference kinds, outcome, boundary distances hit, base class)"
	r.Assume = []string{"programs stay within one bank and SetBase is called at most once before the first emission (as quantified)"}
	if !r.Phase("histories") {
		return
	}
	chunks := r.N(80, 8000)
	r.Parallel(runtime.NumCPU(), chunks, func(w, ci int) {
		g := r.Rand("hist").Fork(uint64(ci))
		cells := map[string]int64{}
		for k := 0; k < 250 && !r.TooMany(); k++ {
			listing := g.Intn(4) == 0
			var calls []hcall
			var base string
			var dist map[string]bool
			capacity := 8192
			if k%10 == 9 { // programs spanning almost the whole bank
				calls, base, dist = genFarHistory(g, listing)
				capacity = 0x10100
			} else if k%10 == 8 { // one label, references packed around it
				calls, base, dist = genDenseRefs(g, listing)
			} else {
				calls, base, dist = genHistory(g, histOpts{maxCalls: 400, listing: listing, withRefs: true, withDup: true})
				if g.Intn(10) == 0 {
					if fl := flushToBankEnd(g, calls, listing); fl != nil {
						calls, base = fl, "ends-at-bank-end"
					}
				}
			}
			if g.Intn(3) != 0 {
				// a target buffer exactly as large as the program (or with 1-3 spare bytes)
				sz := newShadow(listing)
				for _, c := range calls {
					if sz.legal(c) {
						sz.apply(c)
					}
				}
				capacity = len(sz.code) + []int{0, 0, 0, 1, 2, 3}[g.Intn(6)]
			}
			var e *asm.Emitter
			var sh *shadow
			var buf []byte
			var ok bool
			if k%10 != 9 && g.Intn(5) == 0 {
				e, sh, buf, ok = runHistoryTree(r, g, calls, listing, capacity, "c06", cells)
				cells["emitted-through-clones"]++
			} else {
				e, sh, buf, ok = runHistory(r, calls, listing, capacity, "c06")
			}
			r.Eval(1)
			if !ok {
				continue
			}
			fe := sh.expectFinalize()
			pre := append([]byte(nil), e.Bytes()...)
			tail := append([]byte(nil), buf[len(pre):]...)
			names := labelNames(calls)
			obsBefore := observe(e, names)
			var err error
			pan := func() (p interface{}) {
				defer func() { p = recover() }()
				err = e.Finalize()
				return nil
			}()
			hs := func() []string { return histStrings(calls) }
			kinds := ""
			n8, n16 := 0, 0
			for _, rf := range sh.refs {
				if rf.kind == 8 {
					n8++
				} else {
					n16++
				}
			}
			if n8 > 0 {
				kinds += "rel8"
			}
			if n16 > 0 {
				kinds += "abs16"
			}
			if kinds == "" {
				kinds = "norefs"
			}
			outcome := "ok"
			if !fe.ok {
				outcome = "fail"
			}
			cells[fmt.Sprintf("%s:%s:%s", kinds, outcome, base)]++
			for d := range dist {
				switch {
				case d == "back-129", d == "back-128", d == "back-127", d == "back-2", d == "back-3", d == "fwd0", d == "fwd1", d == "fwd126", d == "fwd127", d == "fwd128":
					cells["dist:"+d+":"+outcome]++
				case strings.HasPrefix(d, "far"), d == "hot-label", strings.HasPrefix(d, "dense-64-6"):
					cells["dist:"+d+":"+outcome]++
				}
			}
			switch {
			case pan != nil:
				r.Fail("finalize-panic", fmt.Sprintf("Finalize panicked: %v (base %s)", pan, base), hs())
				continue
			case fe.ok && err != nil:
				r.Fail("finalize-spurious-error", fmt.Sprintf("Finalize failed (%v) although every reference is defined and in range (base %s)", err, base), hs())
				continue
			case !fe.ok && err == nil:
				rf := fe.failing[0]
				why := "undefined"
				if t, ok := sh.labels[rf.label]; ok {
					why = fmt.Sprintf("out of range: %d", int64(t)-int64(rf.insAddr+2))
				}
				r.Fail("finalize-missed-failure", fmt.Sprintf("Finalize succeeded although reference to %q at $%06x is %s", rf.label, rf.insAddr, why), hs())
				continue
			}
			post := e.Bytes()
			if len(post) != len(pre) {
				r.Fail("finalize-length", "Finalize changed Len()", hs())
				continue
			}
			if string(buf[len(pre):]) != string(tail) {
				r.Fail("finalize-beyond-len", "Finalize wrote beyond Len() in the target buffer", hs())
			}
			for i := range post {
				if post[i] != pre[i] && !fe.operandAt[uint32(i)] {
					r.Fail("finalize-non-operand-byte", fmt.Sprintf("Finalize (%s) changed byte %d ($%06x) which is not an operand of a label reference: %02x -> %02x", outcome, i, sh.base+uint32(i), pre[i], post[i]), hs())
					break
				}
			}
			if fe.ok {
				if string(post) != string(fe.code) {
					i := firstDiff(post, fe.code)
					var which string
					for _, rf := range sh.refs {
						o := int(rf.opAddr - sh.base)
						if i == o || (rf.kind == 16 && i == o+1) {
							t := sh.labels[rf.label]
							which = fmt.Sprintf("rel%d reference at $%06x to %q=$%06x (distance %d)", rf.kind, rf.insAddr, rf.label, t, int64(t)-int64(rf.insAddr+2))
						}
					}
					key := "finalize-operand-rel8"
					if strings.HasPrefix(which, "rel16") {
						key = "finalize-operand-abs16"
					}
					r.Fail(key, fmt.Sprintf("after Finalize byte %d is %02x, expected %02x: %s (base %s)", i, post[i], fe.code[i], which, base), hs())
				}
			} else {
				if !sh.errorNamesFailing(err, fe) {
					var fl []string
					for _, rf := range fe.failing {
						fl = append(fl, fmt.Sprintf("%q@$%06x", rf.label, rf.insAddr))
					}
					r.Fail("finalize-error-unspecific", fmt.Sprintf("Finalize error %q names none of the failing references %v", err, fl), hs())
				}
			}
			// labels / PC / flags untouched by Finalize
			obsAfter := observe(e, names)
			obsAfter.Bytes, obsBefore.Bytes = nil, nil
			if d := obsBefore.diff(obsAfter); d != "" {
				r.Fail("finalize-changes-state", "Finalize changed "+d, hs())
			}
			// Finalize again: the same condition holds, so the same outcome is due and nothing may change
			{
				snap := append([]byte(nil), e.Bytes()...)
				var err2 error
				pan2 := vf.Try(func() { err2 = e.Finalize() })
				switch {
				case pan2 != nil:
					r.Fail("finalize-twice-panic", fmt.Sprintf("second Finalize panicked: %v", pan2), hs())
				case fe.ok && err2 != nil:
					r.Fail("finalize-twice", fmt.Sprintf("second Finalize fails (%v) after a successful one", err2), hs())
				case !fe.ok && err2 == nil:
					r.Fail("finalize-twice", "second Finalize succeeds although the first one reported a failing reference and nothing changed", hs())
				case fe.ok && string(e.Bytes()) != string(snap):
					r.Fail("finalize-twice", "second Finalize changed bytes", hs())
				}
				cells["finalize-twice:"+outcome]++
			}
			// incremental use: keep emitting after a successful Finalize and finalize again
			if fe.ok && capacity > len(sh.code)+600 && g.Intn(2) == 0 {
				more, _, _ := genHistory(g, histOpts{maxCalls: 40, listing: listing, withRefs: true})
				okMore := true
				for _, c := range more {
					if c.Op == "setbase" || c.Op == "assumesep" || c.Op == "assumerep" {
						continue
					}
					if c.Op == "label" || (c.Op == "ins" && (c.M.Arg == aLabel8 || c.M.Arg == aLabel16)) {
						c.S = "m_" + c.S // fresh label namespace for the second stage
					}
					if !sh.legal(c) {
						continue
					}
					if pan := invoke(e, c); pan != nil {
						okMore = false
						break
					}
					sh.apply(c)
					calls = append(calls, c)
				}
				if okMore && len(sh.code) <= capacity {
					fe2 := sh.expectFinalize()
					var err3 error
					pan3 := vf.Try(func() { err3 = e.Finalize() })
					switch {
					case pan3 != nil:
						r.Fail("finalize-incremental-panic", fmt.Sprintf("Finalize after further emission panicked: %v", pan3), hs())
					case fe2.ok != (err3 == nil):
						r.Fail("finalize-incremental-outcome", fmt.Sprintf("Finalize after further emission: err=%v, expected success=%v", err3, fe2.ok), hs())
					case fe2.ok && string(e.Bytes()) != string(fe2.code):
						r.Fail("finalize-incremental-bytes", fmt.Sprintf("after emitting more code and finalizing again byte %d differs from the expected patched program", firstDiff(e.Bytes(), fe2.code)), hs())
					}
					cells["finalize-incremental"]++
				}
			}
			if ci == 0 && k < 3 {
				r.Sample(map[string]interface{}{"calls": hs()[:min(len(calls), 14)], "n_calls": len(calls), "base": base, "expected": outcome, "refs": len(sh.refs)})
			}
		}
		r.MergeCells(cells)
	})
	for _, d := range []string{"back-129", "back-128", "back-127", "back-2", "fwd0", "fwd1", "fwd126", "fwd127", "fwd128", ":fail:", ":ok:", "abs16", "dist:farfwdf", "dist:farbackf", "dist:farfwd7", "dist:farback8", "dist:farjmp", "dist:hot-label", "finalize-twice:ok", "finalize-twice:fail", "finalize-incremental"} {
		r.RequireSub(d)
	}
}
