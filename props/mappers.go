package props

import (
	"errors"
	"fmt"
	"os"
	"os/exec"
	"path/filepath"
	"runtime"
	"strconv"
	"strings"

	"github.com/alttpo/snes/mapping/exhirom"
	"github.com/alttpo/snes/mapping/hirom"
	"github.com/alttpo/snes/mapping/lorom"
	"github.com/alttpo/snes/mapping/sa1rom"
	"github.com/alttpo/snes/mapping/util"

	"verif/internal/vf"
)

type mapper struct {
	name string
	b2p  func(uint32) (uint32, error)
	p2b  func(uint32) (uint32, error)
	regs []region
}

// packing rules of the declarative region tables
const (
	rHalf32   = iota // 32 KiB half-bank packing: base + ((bank&mask)<<15 | off&0x7FFF)
	rLin64           // 64 KiB linear: base + (addr & mask)
	rSram32          // 32 KiB per bank SRAM: base + ((bank-lo)<<15 | off)
	rSram8           // 8 KiB per bank SRAM: base + ((bank-lo)<<13 | off&0x1FFF)
	rWramLow         // low 8 KiB of WRAM: $F50000 + off&0x1FFF
	rWramFull        // $F50000 + (addr-$7E0000)
	rBwImage         // SA-1 BW-RAM image: $E00000 + off&0x1FFF
	rBwLinear        // SA-1 BW-RAM banks: $E00000 + ((bank-lo)<<16 | off)
	rSa1Half         // SA-1 half-bank ROM: ((bank-lo+add)<<15 | off&0x7FFF)
	rUnmapped
)

type region struct {
	name           string
	bankLo, bankHi uint32
	offLo, offHi   uint32
	class          string // rom|sram|wram|none
	rule           int
	base, mask     uint32
}

func (g region) eval(a uint32) uint32 {
	bank, off := a>>16, a&0xFFFF
	switch g.rule {
	case rHalf32:
		return g.base + ((bank&g.mask)<<15 | off&0x7FFF)
	case rLin64:
		return g.base + a&g.mask
	case rSram32:
		return g.base + ((bank-g.bankLo)<<15 | off)
	case rSram8:
		return g.base + ((bank-g.bankLo)<<13 | off&0x1FFF)
	case rWramLow:
		return 0xF50000 + off&0x1FFF
	case rWramFull:
		return 0xF50000 + (a - 0x7E0000)
	case rBwImage:
		return 0xE00000 + off&0x1FFF
	case rBwLinear:
		return 0xE00000 + ((bank-g.bankLo)<<16 | off)
	case rSa1Half:
		return (bank-g.bankLo+g.base)<<15 | off&0x7FFF
	}
	return 0
}

// console-owned regions, common to all four mappers
func consoleRegions(lo, hi uint32) []region {
	return []region{
		{"wram-low", lo, hi, 0x0000, 0x1FFF, "wram", rWramLow, 0, 0},
		{"io", lo, hi, 0x2000, 0x5FFF, "none", rUnmapped, 0, 0},
	}
}

func cat(rs ...[]region) []region {
	var out []region
	for _, r := range rs {
		out = append(out, r...)
	}
	return out
}

// Region tables transcribed from the documentation comments in the mapper
// sources ("ROM access: $80:8000-$EF:FFFF", ...), interpreted by region.eval.
var mappers = []mapper{
	{"lorom", lorom.BusAddressToPak, lorom.PakAddressToBus, cat(
		consoleRegions(0x00, 0x6F), consoleRegions(0x80, 0xEF),
		[]region{
			{"exp-00-6f", 0x00, 0x6F, 0x6000, 0x7FFF, "none", rUnmapped, 0, 0},
			{"rom-00-6f", 0x00, 0x6F, 0x8000, 0xFFFF, "rom", rHalf32, 0, 0x3F},
			{"sram-70-7d", 0x70, 0x7D, 0x0000, 0x7FFF, "sram", rSram32, 0xE00000, 0},
			{"rom-70-7d", 0x70, 0x7D, 0x8000, 0xFFFF, "rom", rHalf32, 0, 0x3F},
			{"wram", 0x7E, 0x7F, 0x0000, 0xFFFF, "wram", rWramFull, 0, 0},
			{"exp-80-ef", 0x80, 0xEF, 0x6000, 0x7FFF, "none", rUnmapped, 0, 0},
			{"rom-80-ef", 0x80, 0xEF, 0x8000, 0xFFFF, "rom", rHalf32, 0, 0x3F},
			{"sram-f0-ff", 0xF0, 0xFF, 0x0000, 0x7FFF, "sram", rSram32, 0xE00000, 0},
			{"rom-f0-ff", 0xF0, 0xFF, 0x8000, 0xFFFF, "rom", rHalf32, 0, 0x3F},
		})},
	{"hirom", hirom.BusAddressToPak, hirom.PakAddressToBus, cat(
		consoleRegions(0x00, 0x3F), consoleRegions(0x80, 0xBF),
		[]region{
			{"exp-00-1f", 0x00, 0x1F, 0x6000, 0x7FFF, "none", rUnmapped, 0, 0},
			{"sram-20-3f", 0x20, 0x3F, 0x6000, 0x7FFF, "sram", rSram8, 0xE00000, 0},
			{"rom-00-3f", 0x00, 0x3F, 0x8000, 0xFFFF, "rom", rHalf32, 0, 0x3F},
			{"rom-40-7d", 0x40, 0x7D, 0x0000, 0xFFFF, "rom", rLin64, 0, 0x3FFFFF},
			{"wram", 0x7E, 0x7F, 0x0000, 0xFFFF, "wram", rWramFull, 0, 0},
			{"exp-80-9f", 0x80, 0x9F, 0x6000, 0x7FFF, "none", rUnmapped, 0, 0},
			{"sram-a0-bf", 0xA0, 0xBF, 0x6000, 0x7FFF, "sram", rSram8, 0xE00000, 0},
			{"rom-80-bf", 0x80, 0xBF, 0x8000, 0xFFFF, "rom", rHalf32, 0, 0x3F},
			{"rom-c0-ff", 0xC0, 0xFF, 0x0000, 0xFFFF, "rom", rLin64, 0, 0x3FFFFF},
		})},
	{"exhirom", exhirom.BusAddressToPak, exhirom.PakAddressToBus, cat(
		consoleRegions(0x00, 0x3F), consoleRegions(0x80, 0xBF),
		[]region{
			{"exp-00-3f", 0x00, 0x3F, 0x6000, 0x7FFF, "none", rUnmapped, 0, 0},
			{"rom-00-3f", 0x00, 0x3F, 0x8000, 0xFFFF, "rom", rHalf32, 0x400000, 0x3F},
			{"rom-40-7d", 0x40, 0x7D, 0x0000, 0xFFFF, "rom", rLin64, 0x400000, 0x3FFFFF},
			{"wram", 0x7E, 0x7F, 0x0000, 0xFFFF, "wram", rWramFull, 0, 0},
			{"exp-80-9f", 0x80, 0x9F, 0x6000, 0x7FFF, "none", rUnmapped, 0, 0},
			{"sram-a0-bf", 0xA0, 0xBF, 0x6000, 0x7FFF, "sram", rSram8, 0xE00000, 0},
			{"rom-80-bf", 0x80, 0xBF, 0x8000, 0xFFFF, "rom", rHalf32, 0, 0x3F},
			{"rom-c0-ff", 0xC0, 0xFF, 0x0000, 0xFFFF, "rom", rLin64, 0, 0x3FFFFF},
		})},
	{"sa1rom", sa1rom.BusAddressToPak, sa1rom.PakAddressToBus, cat(
		consoleRegions(0x00, 0x3F), consoleRegions(0x80, 0xBF),
		[]region{
			{"bwimage-00-3f", 0x00, 0x3F, 0x6000, 0x7FFF, "sram", rBwImage, 0, 0},
			{"rom-00-3f", 0x00, 0x3F, 0x8000, 0xFFFF, "rom", rSa1Half, 0x00, 0},
			{"bwram-40-43", 0x40, 0x43, 0x0000, 0xFFFF, "sram", rBwLinear, 0, 0},
			{"bwimage-44-4f", 0x44, 0x4F, 0x0000, 0xFFFF, "sram", rBwImage, 0, 0},
			{"none-50-7d", 0x50, 0x7D, 0x0000, 0xFFFF, "none", rUnmapped, 0, 0},
			{"wram", 0x7E, 0x7F, 0x0000, 0xFFFF, "wram", rWramFull, 0, 0},
			{"bwimage-80-bf", 0x80, 0xBF, 0x6000, 0x7FFF, "sram", rBwImage, 0, 0},
			{"rom-80-bf", 0x80, 0xBF, 0x8000, 0xFFFF, "rom", rSa1Half, 0x40, 0},
			{"rom-c0-ff", 0xC0, 0xFF, 0x0000, 0xFFFF, "rom", rLin64, 0, 0x3FFFFF},
		})},
}

func pakClass(p uint32) string {
	switch {
	case p < 0xE00000:
		return "rom"
	case p < 0xF00000:
		return "sram"
	case p < 0xF50000:
		return "none"
	case p < 0xF70000:
		return "wram"
	case p < 0x1000000:
		return "wram-mirror" // $F7-$FF: pak-side copies, collapse onto WRAM
	}
	return "out-of-range"
}

func isUnmapped(v uint32, err error) (unmapped, wellFormed bool) {
	if err == nil {
		return false, true
	}
	return true, errors.Is(err, util.ErrUnmappedAddress) && v == 0
}

func init() { reg("C04", C04); reg("C05", C05) }

// mapperOrder is the order in which the four mappers are first used in this process
// (VERIF_MAPPER_ORDER=2,0,3,1 in child processes): package state initialised on first use must not
// depend on which mapper a program happens to call first.
// sweepOffsets: the main process sweeps every offset of every bank (the exhaustive part of C04/C05);
// the child processes, which are about the environment and not about the address space, sweep both
// ends of every 8 KiB page and every 61st offset.
var sweepOffsetsCache []uint32

func sweepOffsets() []uint32 {
	if sweepOffsetsCache != nil {
		return sweepOffsetsCache
	}
	var offs []uint32
	if os.Getenv("VERIF_CHILD") == "" {
		for o := uint32(0); o < 0x10000; o++ {
			offs = append(offs, o)
		}
	} else {
		for o := uint32(0); o < 0x10000; o++ {
			if o%61 == 0 || o&0x1FFF == 0 || o&0x1FFF == 0x1FFF || o&0x1FFF == 1 || o&0x1FFF == 0x1FFE {
				offs = append(offs, o)
			}
		}
	}
	sweepOffsetsCache = offs
	return offs
}

// firstUseProcs (child processes, VERIF_FIRST_PROCS=k): the first calls of every mapper are made while the
// runtime may use k processors; afterwards the process goes back to all of them (the sweeps are the same
// work either way, only slower).
func firstUseProcs() {
	k, err := strconv.Atoi(os.Getenv("VERIF_FIRST_PROCS"))
	if err != nil || k < 1 {
		return
	}
	old := runtime.GOMAXPROCS(k)
	for _, mi := range mapperOrder() {
		m := mappers[mi]
		for _, a := range []uint32{0x008000, 0x7E0000, 0x700000, 0xC08000, 0x002100, 0xFFFFFF} {
			_, _ = m.b2p(a)
			_, _ = m.p2b(a & 0x3FFFFF)
			_, _ = m.p2b(0xE00000 | a&0xFFFF)
		}
	}
	runtime.GOMAXPROCS(old)
}

func mapperOrder() []int {
	order := []int{0, 1, 2, 3}
	if v := os.Getenv("VERIF_MAPPER_ORDER"); v != "" {
		var o []int
		for _, f := range strings.Split(v, ",") {
			if n, err := strconv.Atoi(f); err == nil && n >= 0 && n < 4 {
				o = append(o, n)
			}
		}
		if len(o) == 4 {
			order = o
		}
	}
	return order
}

// coldStartChildren runs many short-lived child processes, each making its first mapper calls from
// 16 goroutines at once.
func coldStartChildren(r *vf.Run) {
	if os.Getenv("VERIF_MAPPER_ORDER") != "" || r.OnlyPhase != "" {
		return
	}
	exe, err := os.Executable()
	if err != nil {
		return
	}
	n := r.N(24, 240)
	orders := []string{"0,1,2,3", "1,2,3,0", "2,3,0,1", "3,0,1,2"}
	out := filepath.Join(vf.ScratchDir(), "cold-"+r.ID)
	_ = os.MkdirAll(out, 0o755)
	defer os.RemoveAll(out)
	for i := 0; i < n; i++ {
		cmd := exec.Command(exe, r.ID, r.Tier)
		cmd.Env = append(os.Environ(), "VERIF_CHILD=1", "VERIF_COLDSTART=1", "VERIF_MAPPER_ORDER="+orders[i%4], "VERIF_OUT="+out)
		b, err := cmd.CombinedOutput()
		r.Eval(1)
		if ee, ok := err.(*exec.ExitError); ok && ee.ExitCode() == 1 {
			first := "child reported a violation"
			for _, ln := range strings.Split(string(b), "\n") {
				if strings.Contains(ln, "violation[") {
					first = strings.TrimSpace(ln)
					break
				}
			}
			r.Fail("first-use-under-concurrency", fmt.Sprintf("fresh process #%d whose first mapper calls come from 16 goroutines at once: %s", i, first), nil)
			break
		} else if err != nil {
			if _, ok := err.(*exec.ExitError); !ok {
				r.Inconclusive("cold-start child failed to start: " + err.Error())
				break
			}
		}
	}
	r.CellN("cold-start-processes", int64(n))
}

// otherOrders re-runs the monitor in fresh child processes that use the mappers in other orders.
func otherOrders(r *vf.Run) {
	if os.Getenv("VERIF_MAPPER_ORDER") != "" || r.OnlyPhase != "" {
		return
	}
	orders := []string{"3,2,1,0", "2,0,3,1", "1,3,0,2"}
	if !r.Quick() {
		orders = nil
		var perm func(a []int, k int)
		perm = func(a []int, k int) {
			if k == len(a) {
				if !(a[0] == 0 && a[1] == 1 && a[2] == 2) {
					orders = append(orders, fmt.Sprintf("%d,%d,%d,%d", a[0], a[1], a[2], a[3]))
				}
				return
			}
			for i := k; i < len(a); i++ {
				a[k], a[i] = a[i], a[k]
				perm(a, k+1)
				a[k], a[i] = a[i], a[k]
			}
		}
		perm([]int{0, 1, 2, 3}, 0)
	}
	exe, err := os.Executable()
	if err != nil {
		r.Inconclusive("cannot locate own executable for the mapper-order child runs: " + err.Error())
		return
	}
	for oi, o := range orders {
		out := filepath.Join(vf.ScratchDir(), "child-"+r.ID+"-"+strings.ReplaceAll(o, ",", ""))
		_ = os.MkdirAll(out, 0o755)
		cmd := exec.Command(exe, r.ID, r.Tier)
		// the number of processors the runtime may use is part of the environment as well: each of
		// these processes gets another one (this machine's own count is a power of two)
		procs := []int{3, 6, 12, 1, 5, 7, 24, 2}[(oi+int(r.Seed))%8]
		r.Cell(fmt.Sprintf("process-gomaxprocs:%d", procs))
		cmd.Env = append(os.Environ(), "VERIF_CHILD=1", "VERIF_MAPPER_ORDER="+o, "VERIF_OUT="+out, fmt.Sprintf("VERIF_SEED=%d", r.Seed), fmt.Sprintf("VERIF_FIRST_PROCS=%d", procs))
		b, err := cmd.CombinedOutput()
		r.Eval(1)
		r.Cell("process-order:" + o)
		code := 0
		if ee, ok := err.(*exec.ExitError); ok {
			code = ee.ExitCode()
		} else if err != nil {
			r.Inconclusive("child run failed to start: " + err.Error())
			continue
		}
		switch code {
		case 0:
		case 1:
			first := "child reported a violation"
			for _, ln := range strings.Split(string(b), "\n") {
				if strings.Contains(ln, "violation[") {
					first = strings.TrimSpace(ln)
					break
				}
			}
			r.Fail("depends-on-first-use-order", fmt.Sprintf("with the mappers first used in the order %s (fresh process): %s", o, first), map[string]string{"VERIF_MAPPER_ORDER": o})
		default:
			r.Inconclusive(fmt.Sprintf("child run with mapper order %s exited %d", o, code))
		}
		_ = os.RemoveAll(out)
	}
}

// c04Check evaluates both laws at one 24-bit number (as a bus address and as a pak address).
func c04Check(r *vf.Run, m *mapper, a uint32, cells map[string]int64) {
	// law 1, from the bus side
	p, err := m.b2p(a)
	if err == nil {
		cl := pakClass(p)
		cells[m.name+":law1:"+cl]++
		b2, err2 := m.p2b(p)
		if err2 != nil {
			r.Fail(m.name+"-law1-inverse-fails", fmt.Sprintf("%s: B2P($%06x)=$%06x but P2B($%06x) fails: %v", m.name, a, p, p, err2), map[string]uint32{"bus": a, "pak": p})
		} else if p2, err3 := m.b2p(b2); err3 != nil || p2 != p {
			r.Fail(m.name+"-law1-"+cl, fmt.Sprintf("%s: B2P($%06x)=$%06x, P2B=$%06x, B2P again=($%06x,%v)", m.name, a, p, b2, p2, err3), map[string]uint32{"bus": a, "pak": p, "back": b2})
		}
	} else {
		cells[m.name+":law1:unmapped-bus"]++
	}
	// law 2, from the pak side (same 24-bit number reused as a pak address)
	b, perr := m.p2b(a)
	if perr != nil {
		cells[m.name+":law2:rejected"]++
		return
	}
	cl := pakClass(a)
	cells[m.name+":law2:"+cl]++
	q, qerr := m.b2p(b)
	if b > 0xFFFFFF {
		r.Fail(m.name+"-law2-range", fmt.Sprintf("%s: P2B($%06x)=$%x beyond 24 bits", m.name, a, b), nil)
	} else if qerr != nil {
		r.Fail(m.name+"-law2-unmapped-"+cl, fmt.Sprintf("%s: P2B($%06x)=$%06x which B2P does not map (%v)", m.name, a, b, qerr), map[string]uint32{"pak": a, "bus": b})
	} else {
		want := cl
		if want == "wram-mirror" {
			want = "wram"
		}
		if got := pakClass(q); got != want {
			r.Fail(m.name+"-law2-class-"+cl, fmt.Sprintf("%s: P2B($%06x)=$%06x designates %s ($%06x), want %s", m.name, a, b, got, q, want), map[string]uint32{"pak": a, "bus": b, "pak2": q})
		} else if q&0x1FFF != a&0x1FFF {
			r.Fail(m.name+"-law2-page-offset", fmt.Sprintf("%s: P2B($%06x)=$%06x -> $%06x: offset within 8 KiB page changed", m.name, a, b, q), nil)
		}
	}
}

// C04: the two inverse laws, evaluated by composing the real functions over
// all 2^24 bus and all 2^24 pak addresses of each mapper.
func C04(r *vf.Run) {
	r.Rule = "exhaustive sweep of all 2^24 bus addresses (law 1: B2P(P2B(B2P(b)))==B2P(b)) and all 2^24 pak addresses (law 2: P2B(p) is mapped, same class, same offset in its 8 KiB page) for each of the 4 mappers, repeated in fresh child processes that first use the mappers in other orders; a cell is (mapper, law, memory class of the address) or a first-use order"
	r.Exhaustive = true
	r.Assume = []string{"pak-side class windows: ROM < $E00000, SRAM $E0-$EF, WRAM $F5-$F6 with $F7-$FF counted as WRAM mirrors"}
	_ = sweepOffsets() // (built before the workers start)
	libraryFirst(r)
	firstUseProcs()
	for _, mi := range mapperOrder() {
		m := mappers[mi]
		if !r.Phase(m.name) {
			continue
		}
		r.Parallel(runtime.NumCPU(), 256, func(w, bank int) {
			cells := map[string]int64{}
			for _, off := range sweepOffsets() {
				c04Check(r, &m, uint32(bank)<<16|off, cells)
			}
			r.Eval(int64(2 * len(sweepOffsets())))
			r.MergeCells(cells)
		})
		r.Sample(map[string]interface{}{"mapper": m.name, "bus": "$808000", "pak": fmt.Sprintf("$%06x", first(m.b2p(0x808000)))})
	}
	interleavedWithLibrary(r, func(m *mapper, a uint32, cells map[string]int64) { c04Check(r, m, a, cells) })
	runsThenJumps(r, func(m *mapper, a uint32) { c04Check(r, m, a, map[string]int64{}) })
	usedAtInitTime(r)
	otherOrders(r)
	runChild(r, "library-first", "VERIF_LIB_FIRST=1", "VERIF_MAPPER_ORDER=0,1,2,3")
	if r.OnlyPhase == "" {
		for _, m := range mappers {
			for _, c := range []string{"law1:rom", "law1:sram", "law1:wram", "law2:rom", "law2:sram", "law2:wram", "law2:wram-mirror", "law2:rejected"} {
				r.Require(m.name + ":" + c)
			}
		}
	}
}

func first(v uint32, _ error) uint32 { return v }

// C05: structural invariants + declarative region table.
// coldStartProbe is what a C05 child process does under VERIF_COLDSTART=1: the very first calls
// of each mapper in the process are made by 16 goroutines at the same instant and compared with
// the region table (first-use initialisation must be safe under concurrency).
func coldStartProbe(r *vf.Run) {
	for _, mi := range mapperOrder() {
		m := mappers[mi]
		r.Phase("cold-start:" + m.name)
		vf.Parallel(16, 16, func(w, i int) {
			for k := 0; k < 4096; k++ {
				a := (uint32(i)*0x100000 + uint32(k)*0x2FF1) & 0xFFFFFF
				var g *region
				for ri := range m.regs {
					x := &m.regs[ri]
					if a>>16 >= x.bankLo && a>>16 <= x.bankHi && a&0xFFFF >= x.offLo && a&0xFFFF <= x.offHi {
						g = x
					}
				}
				p, err := m.b2p(a)
				if g == nil {
					continue
				}
				if g.class == "none" {
					if err == nil {
						r.Fail(m.name+"-cold-start", fmt.Sprintf("%s: first concurrent calls: B2P($%06x)=$%06x, table region %s says unmapped", m.name, a, p, g.name), nil)
					}
				} else if err != nil || p != g.eval(a) {
					r.Fail(m.name+"-cold-start", fmt.Sprintf("%s: first concurrent calls: B2P($%06x)=($%06x,%v), table region %s says $%06x", m.name, a, p, err, g.name, g.eval(a)), nil)
				}
				if q, err := m.p2b(a); err == nil && q > 0xFFFFFF {
					r.Fail(m.name+"-cold-start", fmt.Sprintf("%s: first concurrent calls: P2B($%06x)=$%x", m.name, a, q), nil)
				}
			}
			r.Eval(4096)
		})
		r.Cell("cold:" + m.name)
	}
	r.Cell("cold:done")
}

// c05Check: the table, the error shape and the reject set at one 24-bit number.
func c05Check(r *vf.Run, m *mapper, a uint32) {
	var g *region
	for ri := range m.regs {
		x := &m.regs[ri]
		if a>>16 >= x.bankLo && a>>16 <= x.bankHi && a&0xFFFF >= x.offLo && a&0xFFFF <= x.offHi {
			g = x
		}
	}
	p, err := m.b2p(a)
	un, wf := isUnmapped(p, err)
	if !wf {
		r.Fail(m.name+"-error-shape", fmt.Sprintf("%s: B2P($%06x)=($%06x,%v): not (0, ErrUnmappedAddress)", m.name, a, p, err), nil)
	}
	cl := "none"
	if !un {
		cl = pakClass(p)
		if cl != "rom" && cl != "sram" && cl != "wram" {
			r.Fail(m.name+"-window", fmt.Sprintf("%s: B2P($%06x)=$%06x outside every class window", m.name, a, p), nil)
		}
	}
	if g != nil {
		if cl != g.class {
			r.Fail(m.name+"-table-class-"+g.name, fmt.Sprintf("%s: B2P($%06x) is %s ($%06x,%v), table region %s says %s", m.name, a, cl, p, err, g.name, g.class), nil)
		} else if !un {
			if want := g.eval(a); want != p {
				r.Fail(m.name+"-table-position-"+g.name, fmt.Sprintf("%s: B2P($%06x)=$%06x, table region %s says $%06x", m.name, a, p, g.name, want), nil)
			}
		}
	}
	b, perr := m.p2b(a)
	pun, pwf := isUnmapped(b, perr)
	if !pwf {
		r.Fail(m.name+"-error-shape-p2b", fmt.Sprintf("%s: P2B($%06x)=($%06x,%v): not (0, ErrUnmappedAddress)", m.name, a, b, perr), nil)
	}
	if pun != (pakClass(a) == "none") {
		r.Fail(m.name+"-reject-set", fmt.Sprintf("%s: P2B($%06x) rejected=%v but the unassigned window is exactly $F00000-$F4FFFF", m.name, a, pun), nil)
	}
	if !pun && b > 0xFFFFFF {
		r.Fail(m.name+"-p2b-range", fmt.Sprintf("%s: P2B($%06x)=$%x beyond 24 bits", m.name, a, b), nil)
	}
}

func C05(r *vf.Run) {
	if os.Getenv("VERIF_COLDSTART") != "" {
		r.Rule = "cold-start probe (child process)"
		coldStartProbe(r)
		return
	}
	r.Rule = "exhaustive sweep of all 2^24 bus and 2^24 pak addresses x 4 mappers: error shape, class windows, reject set, 8 KiB page uniformity and order preservation in both directions, console-owned agreement, and equality with a declarative region table, repeated in fresh child processes that first use the mappers in other orders (workers released by a start barrier, so first use is concurrent); a cell is (mapper, table region), (mapper, pak class) or a first-use order"
	r.Exhaustive = true
	r.Assume = []string{"region tables in props/mappers.go transcribe the documentation comments of the mapper sources"}
	_ = sweepOffsets() // (built before the workers start)
	libraryFirst(r)
	firstUseProcs()
	for _, mi := range mapperOrder() {
		m := mappers[mi]
		if !r.Phase(m.name) {
			continue
		}
		// table sanity: every (bank, 8 KiB page) belongs to exactly one region
		owner := make([]int16, 256*8)
		for i := range owner {
			owner[i] = -1
		}
		for ri, g := range m.regs {
			for b := g.bankLo; b <= g.bankHi; b++ {
				for pg := g.offLo >> 13; pg <= g.offHi>>13; pg++ {
					if owner[b*8+pg] != -1 {
						panic(fmt.Sprintf("%s: table regions %s and %s overlap at bank %02x page %d", m.name, m.regs[owner[b*8+pg]].name, g.name, b, pg))
					}
					owner[b*8+pg] = int16(ri)
				}
			}
		}
		for i, o := range owner {
			if o == -1 {
				panic(fmt.Sprintf("%s: table does not cover bank %02x page %d", m.name, i/8, i%8))
			}
		}
		r.Parallel(runtime.NumCPU(), 256, func(w, bank int) {
			cells := map[string]int64{}
			for _, off := range sweepOffsets() {
				a := uint32(bank)<<16 | off
				g := m.regs[owner[uint32(bank)*8+off>>13]]
				p, err := m.b2p(a)
				un, wf := isUnmapped(p, err)
				if !wf {
					r.Fail(m.name+"-error-shape", fmt.Sprintf("%s: B2P($%06x)=($%06x,%v): not (0, ErrUnmappedAddress)", m.name, a, p, err), nil)
				}
				cl := "none"
				if !un {
					cl = pakClass(p)
					if cl != "rom" && cl != "sram" && cl != "wram" {
						r.Fail(m.name+"-window", fmt.Sprintf("%s: B2P($%06x)=$%06x outside every class window", m.name, a, p), nil)
					}
				}
				// table
				if cl != g.class {
					r.Fail(m.name+"-table-class-"+g.name, fmt.Sprintf("%s: B2P($%06x) is %s ($%06x,%v), table region %s says %s", m.name, a, cl, p, err, g.name, g.class), nil)
				} else if !un {
					if want := g.eval(a); want != p {
						r.Fail(m.name+"-table-position-"+g.name, fmt.Sprintf("%s: B2P($%06x)=$%06x, table region %s says $%06x", m.name, a, p, g.name, want), nil)
					}
				}
				cells[m.name+":b2p:"+g.name]++
				// page uniformity and order, bus side
				if off&0x1FFF != 0x1FFF {
					p1, err1 := m.b2p(a + 1)
					if (err1 != nil) != un {
						r.Fail(m.name+"-page-partial", fmt.Sprintf("%s: 8 KiB page of $%06x only partly mapped", m.name, a), nil)
					} else if !un && p1 != p+1 {
						r.Fail(m.name+"-page-order", fmt.Sprintf("%s: B2P($%06x)=$%06x but B2P($%06x)=$%06x", m.name, a, p, a+1, p1), nil)
					}
				}
				// console-owned parts (table-free)
				if bank == 0x7E || bank == 0x7F {
					if un || p != 0xF50000+(a-0x7E0000) {
						r.Fail(m.name+"-console-wram", fmt.Sprintf("%s: B2P($%06x)=($%06x,%v) want $%06x", m.name, a, p, err, 0xF50000+(a-0x7E0000)), nil)
					}
				} else if bank < 0x40 || (bank >= 0x80 && bank < 0xC0) {
					if off < 0x2000 && (un || p != 0xF50000+off) {
						r.Fail(m.name+"-console-wram-low", fmt.Sprintf("%s: B2P($%06x)=($%06x,%v) want $%06x", m.name, a, p, err, 0xF50000+off), nil)
					}
					if off >= 0x2000 && off < 0x6000 && !un {
						r.Fail(m.name+"-console-io", fmt.Sprintf("%s: B2P($%06x)=$%06x but the register area is never translated", m.name, a, p), nil)
					}
				}
				// pak side
				b, perr := m.p2b(a)
				pun, pwf := isUnmapped(b, perr)
				pcl := pakClass(a)
				if !pwf {
					r.Fail(m.name+"-error-shape-p2b", fmt.Sprintf("%s: P2B($%06x)=($%06x,%v): not (0, ErrUnmappedAddress)", m.name, a, b, perr), nil)
				}
				if pun != (pcl == "none") {
					r.Fail(m.name+"-reject-set", fmt.Sprintf("%s: P2B($%06x) rejected=%v but the unassigned window is exactly $F00000-$F4FFFF", m.name, a, pun), nil)
				}
				cells[m.name+":p2b:"+pcl]++
				if !pun && off&0x1FFF != 0x1FFF {
					b1, e1 := m.p2b(a + 1)
					if e1 != nil || b1 != b+1 {
						r.Fail(m.name+"-page-order-p2b", fmt.Sprintf("%s: P2B($%06x)=$%06x but P2B($%06x)=($%06x,%v)", m.name, a, b, a+1, b1, e1), nil)
					}
				}
			}
			r.Eval(int64(2 * len(sweepOffsets())))
			r.MergeCells(cells)
		})
		r.Sample(map[string]interface{}{"mapper": m.name, "regions": len(m.regs), "e.g.": m.regs[len(m.regs)-1].name})
	}
	// cross-mapper agreement on console-owned addresses
	if r.Phase("cross-mapper") {
		var n int64
		check := func(a uint32) {
			p0, e0 := mappers[0].b2p(a)
			for _, m := range mappers[1:] {
				p, e := m.b2p(a)
				if p != p0 || (e == nil) != (e0 == nil) {
					r.Fail("cross-mapper-console", fmt.Sprintf("lorom and %s disagree on console-owned $%06x: ($%06x,%v) vs ($%06x,%v)", m.name, a, p0, e0, p, e), nil)
				}
			}
			n++
		}
		for a := uint32(0x7E0000); a < 0x800000; a++ {
			check(a)
		}
		for _, base := range []uint32{0x00, 0x80} {
			for b := base; b < base+0x40; b++ {
				for off := uint32(0); off < 0x6000; off++ {
					check(b<<16 | off)
				}
			}
		}
		r.Eval(n)
		r.CellN("cross:console-addresses", n)
	}
	interleavedWithLibrary(r, func(m *mapper, a uint32, cells map[string]int64) { c05Check(r, m, a) })
	runsThenJumps(r, func(m *mapper, a uint32) { c05Check(r, m, a) })
	callVolume(r, func(m *mapper, a uint32) { c05Check(r, m, a) })
	usedAtInitTime(r)
	otherOrders(r)
	runChild(r, "library-first", "VERIF_LIB_FIRST=1", "VERIF_MAPPER_ORDER=0,1,2,3")
	coldStartChildren(r)
	if r.OnlyPhase == "" {
		for _, m := range mappers {
			for _, g := range m.regs {
				r.Require(m.name + ":b2p:" + g.name)
			}
		}
	}
}
