//go:build linux && (amd64 || arm64 || ppc64le || riscv64 || s390x)

package props

import (
	"bytes"
	"fmt"
	"os"
	"syscall"

	snes "github.com/alttpo/snes"

	"verif/internal/vf"
)

func c09HugeImages(r *vf.Run) {
	if os.Getenv("VERIF_CHILD") != "" || os.Getenv("VERIF_ERRORS_FIRST") != "" || !r.Phase("huge-images") {
		return
	}
	{
		// "images of any size": lengths at and beyond 2^31 and 2^32 bytes, where a length no longer fits
		// the 32-bit types header offsets are kept in. The pages are never touched except around the
		// header and at the probes, so the images cost address space, not memory.
		g := r.Rand("huge")
		sizes := []int{1 << 31, 1<<31 + 0x8000, 1 << 32, 1<<32 + 0x4000, 1<<32 + 0x7FFF, 1<<32 + 0x8000}
		if r.Quick() {
			sizes = []int{sizes[int(r.Seed)%2], 1 << 32, sizes[3+int(r.Seed)%3]}
		}
		for _, size := range sizes {
			func() {
				// anonymous pages straight from the kernel: untouched pages cost nothing
				img, merr := syscall.Mmap(-1, 0, size, syscall.PROT_READ|syscall.PROT_WRITE, syscall.MAP_ANON|syscall.MAP_PRIVATE)
				if merr != nil {
					r.SetExtra("huge_images_skipped", fmt.Sprintf("%d bytes: %v", size, merr))
					return
				}
				defer syscall.Munmap(img)
				probes := []int{0, 0x7FAF, 0x8000, 0xFFB0, 1<<31 - 1, 1 << 31, size - 0x8000 + 0x7FB0, size - 1}
				if size > 1<<32 {
					probes = append(probes, 1<<32-1, 1<<32, 1<<32+0x7FB0&(size-1))
				}
				for _, p := range probes {
					if p >= 0 && p < size {
						img[p] = byte(0x80 | p&0x7F)
					}
				}
				raw := g.Bytes(80)
				switch g.Intn(3) {
				case 0:
					raw[0x2A] = 0x33
				case 1:
					raw[0x2A], raw[0x24] = 0x01, 0
				}
				copy(img[0x7FB0:], raw)
				ver, want := expectHeader(raw)
				var rom *snes.ROM
				var err error
				if pan := vf.Try(func() { rom, err = newROMAnyWay(g.Intn(4), "huge", img) }); pan != nil || err != nil || rom == nil {
					r.Fail("huge-image-refused", fmt.Sprintf("an image of %d bytes (2^32%+d): NewROM/ReadHeader: panic=%v err=%v", size, size-1<<32, pan, err), vf.Hex(raw))
					return
				}
				r.Eval(1)
				if d := diffFields(want, flattenHeader(&rom.Header)); len(d) > 0 || rom.Header.HeaderVersion() != ver {
					r.Fail("huge-image-fields", fmt.Sprintf("an image of %d bytes: version %d (want %d), fields %v differ from the offset table", size, rom.Header.HeaderVersion(), ver, d), vf.Hex(raw))
					return
				}
				var werr error
				if pan := vf.Try(func() { werr = rom.WriteHeader() }); pan != nil || werr != nil {
					r.Fail("huge-image-write", fmt.Sprintf("an image of %d bytes: WriteHeader: panic=%v err=%v", size, pan, werr), vf.Hex(raw))
					return
				}
				if !bytes.Equal(img[0x7FB0:0x8000], raw) {
					r.Fail("huge-image-roundtrip", fmt.Sprintf("an image of %d bytes: ReadHeader+WriteHeader changed header byte $%02x", size, firstDiff(img[0x7FB0:0x8000], raw)), vf.Hex(raw))
					return
				}
				for _, p := range probes {
					if p >= 0 && p < size && (p < 0x7FB0 || p >= 0x8000) && img[p] != byte(0x80|p&0x7F) {
						r.Fail("huge-image-roundtrip", fmt.Sprintf("an image of %d bytes: ReadHeader+WriteHeader changed the byte at file offset $%x", size, p), vf.Hex(raw))
						return
					}
				}
				// an edited field reaches the image
				rom.Header.ROMSize ^= 0x5A
				_ = rom.WriteHeader()
				if img[0x7FB0+0x27] != raw[0x27]^0x5A {
					r.Fail("huge-image-write", fmt.Sprintf("an image of %d bytes: an edited ROMSize was not written to $7FD7 by WriteHeader", size), vf.Hex(raw))
					return
				}
				r.Cell(fmt.Sprintf("huge-image:2^%d%+d", map[bool]int{true: 32, false: 31}[size >= 1<<32], size-map[bool]int{true: 1 << 32, false: 1 << 31}[size >= 1<<32]))
			}()
		}
	}
}
