package props

import (
	"fmt"
	"runtime"
	"sync/atomic"

	"github.com/alttpo/snes/color15"

	"verif/internal/vf"
)

func init() { reg("C17", C17) }

// C17: closed-form oracle for 15-bit colour packing / MulDiv / Luminosity,
// evaluated exhaustively (thorough) or per channel position (quick).
func C17(r *vf.Run) {
	r.Rule = "closed-form oracle computed in int; round-trip over all 2^16 colours and all 2^24 channel triples; MulDiv over every (channel value, multiplicand, divisor) in each channel position (quick) or all 2^16 x 256 x 255 (thorough); plus call sequences over few distinct multiplicands/divisors in every order interleaved with recovered zero-divisor calls; a cell is (function, channel position, quotient class {<=31, 32..255, >=256})"
	r.Assume = []string{"ToRGB/ToColor15/MulDiv/Luminosity are pure functions of their arguments (checked by C18)"}

	if r.Phase("roundtrip") {
		for c := 0; c < 1<<16; c++ {
			col := color15.Color(c)
			cr, cg, cb := col.ToRGB()
			back := color15.ToColor15(cr, cg, cb)
			if int(back) != c&0x7FFF {
				r.Fail("unpack-pack", fmt.Sprintf("ToColor15(ToRGB(%#04x))=%#04x want %#04x", c, back, c&0x7FFF), nil)
			}
			if cr > 31 || cg > 31 || cb > 31 {
				r.Fail("unpack-range", fmt.Sprintf("ToRGB(%#04x)=(%d,%d,%d) exceeds 5 bits", c, cr, cg, cb), nil)
			}
			wantL := (int(cr) + int(cg) + int(cb)) / 3
			// independent decode of the channels as well
			ir, ig, ib := c&31, (c>>5)&31, (c>>10)&31
			if int(cr) != ir || int(cg) != ig || int(cb) != ib {
				r.Fail("unpack-channels", fmt.Sprintf("ToRGB(%#04x)=(%d,%d,%d) want (%d,%d,%d)", c, cr, cg, cb, ir, ig, ib), nil)
			}
			if l := col.Luminosity(); int(l) != wantL || wantL != (ir+ig+ib)/3 {
				r.Fail("luminosity", fmt.Sprintf("Luminosity(%#04x)=%d want %d", c, l, (ir+ig+ib)/3), nil)
			}
			r.Eval(2)
		}
		r.CellN("roundtrip:colours", 1<<16)
		r.CellN("luminosity:colours", 1<<16)
		// pack-unpack over all 2^24 triples
		var bad atomic.Int64
		vf.Parallel(runtime.NumCPU(), 256, func(w, ri int) {
			for g := 0; g < 256; g++ {
				for b := 0; b < 256; b++ {
					c := color15.ToColor15(uint8(ri), uint8(g), uint8(b))
					xr, xg, xb := c.ToRGB()
					if int(xr) != ri&31 || int(xg) != g&31 || int(xb) != b&31 || c&0x8000 != 0 {
						if bad.Add(1) < 4 {
							r.Fail("pack-unpack", fmt.Sprintf("ToRGB(ToColor15(%d,%d,%d))=(%d,%d,%d) colour %#04x", ri, g, b, xr, xg, xb, c), nil)
						}
					}
				}
			}
			r.Eval(1 << 16)
		})
		r.CellN("pack:triples", 1<<24)
		r.Sample(map[string]interface{}{"colour": "0x7fff", "rgb": []int{31, 31, 31}})
	}

	r.SetExtra("new_exported_functions_poked", apiPokeKeys())
	check := func(c int, m, d int, cells *[3][3]int64) {
		if len(apiPokeKeys()) > 0 && (c*7+m+d)%5 == 0 {
			apiPokes("github.com/alttpo/snes/color15", uint64(m), uint64(d), uint64(c))
		}
		got := color15.Color(c).MulDiv(uint8(m), uint8(d))
		ch := [3]int{c & 31, (c >> 5) & 31, (c >> 10) & 31}
		want := 0
		big := false
		for i := 0; i < 3; i++ {
			q := ch[i] * m / d
			cl := 0
			if q >= 256 {
				cl = 2
				big = true
			} else if q > 31 {
				cl = 1
			}
			cells[i][cl]++
			if q > 31 {
				q = 31
			}
			want |= q << (5 * uint(i))
		}
		if int(got) != want {
			key := "muldiv-other"
			if big {
				key = "muldiv-quotient-ge-256"
			}
			r.Fail(key, fmt.Sprintf("Color(%#04x).MulDiv(%d,%d)=%#04x want %#04x", c, m, d, got, want), map[string]int{"colour": c, "mul": m, "div": d})
		}
	}
	merge := func(cells *[3][3]int64) {
		names := [3]string{"r", "g", "b"}
		cl := [3]string{"q<=31", "q32..255", "q>=256"}
		for i := 0; i < 3; i++ {
			for j := 0; j < 3; j++ {
				r.CellN("muldiv:"+names[i]+":"+cl[j], cells[i][j])
			}
		}
	}

	if r.Quick() {
		if r.Phase("muldiv-channels") {
			g := r.Rand("muldiv-others")
			others := []int{0, 31, g.Intn(32), g.Intn(32)}
			vf.Parallel(runtime.NumCPU(), 3*32, func(w, i int) {
				var cells [3][3]int64
				pos, v := i/32, i%32
				n := int64(0)
				for _, o := range others {
					c := 0
					for p := 0; p < 3; p++ {
						x := o
						if p == pos {
							x = v
						}
						c |= x << (5 * uint(p))
					}
					for _, hi := range []int{0, 0x8000} {
						for m := 0; m < 256; m++ {
							for d := 1; d < 256; d++ {
								check(c|hi, m, d, &cells)
								n++
							}
						}
					}
				}
				r.Eval(n)
				merge(&cells)
			})
			r.SetExtra("muldiv_other_channel_values", others)
		}
		if r.Phase("muldiv-random") {
			vf.Parallel(runtime.NumCPU(), 64, func(w, i int) {
				g := r.Rand("muldiv-random").Fork(uint64(i))
				var cells [3][3]int64
				for k := 0; k < 1<<14; k++ {
					check(int(g.U16()), int(g.U8()), 1+g.Intn(255), &cells)
				}
				r.Eval(1 << 14)
				merge(&cells)
			})
		}
	} else if r.Phase("muldiv-exhaustive") {
		vf.Parallel(runtime.NumCPU(), 1<<16, func(w, c int) {
			var cells [3][3]int64
			for m := 0; m < 256; m++ {
				for d := 1; d < 256; d++ {
					check(c, m, d, &cells)
				}
			}
			r.Eval(256 * 255)
			merge(&cells)
		})
		r.Exhaustive = true
	}
	if r.Phase("muldiv-laws") {
		// consequences asserted directly: identity, monotonicity in the ratio, bit 15 clear
		g := r.Rand("laws")
		for k := 0; k < r.N(200000, 2000000); k++ {
			c := color15.Color(g.U16())
			d := uint8(1 + g.Intn(255))
			if got := c.MulDiv(d, d); got != c&0x7FFF {
				r.Fail("muldiv-identity", fmt.Sprintf("Color(%#04x).MulDiv(%d,%d)=%#04x", c, d, d, got), nil)
			}
			m1, m2 := g.U8(), g.U8()
			if m1 > m2 {
				m1, m2 = m2, m1
			}
			a, b := c.MulDiv(m1, d), c.MulDiv(m2, d)
			ar, ag, ab := a.ToRGB()
			br, bg, bb := b.ToRGB()
			if ar > br || ag > bg || ab > bb {
				key := "muldiv-monotone"
				if int(c&31)*int(m2)/int(d) >= 256 || int(c>>5&31)*int(m2)/int(d) >= 256 || int(c>>10&31)*int(m2)/int(d) >= 256 {
					key = "muldiv-quotient-ge-256"
				}
				r.Fail(key, fmt.Sprintf("Color(%#04x): MulDiv(%d,%d)=%#04x darker than MulDiv(%d,%d)=%#04x", c, m2, d, b, m1, d, a), nil)
			}
			if a&0x8000 != 0 || b&0x8000 != 0 {
				r.Fail("muldiv-bit15", fmt.Sprintf("Color(%#04x).MulDiv sets bit 15", c), nil)
			}
			r.Eval(3)
		}
		r.Cell("laws:identity+monotone")
		r.Sample(map[string]interface{}{"colour": "0x7fff", "mul": 255, "div": 30, "want": "0x7fff"})
	}
	if r.Phase("muldiv-hostile-order") {
		// call order as an input: few distinct multiplicands and divisors, so the same ratio, the same
		// multiplicand with another divisor and the same divisor with another multiplicand follow each
		// other in every order, interleaved with zero-divisor calls (which the caller recovers from),
		// Luminosity, ToRGB and ToColor15 calls; every result is judged by the closed form
		nseq := r.N(64, 2048)
		vf.Parallel(1, nseq, func(w, si int) { // one goroutine: the order is the point
			g := r.Rand("hostile").Fork(uint64(si))
			var cells [3][3]int64
			ms := []int{g.Intn(256), g.Intn(256), 1 + g.Intn(8), 255}
			ds := []int{1 + g.Intn(255), 1 + g.Intn(255), 1 + g.Intn(4), 255}
			cols := []int{0x7FFF, int(g.U16()), int(g.U16()), 0x0421}
			zero := 0
			for k := 0; k < 4000; k++ {
				c := cols[g.Intn(len(cols))]
				if g.Intn(4) == 0 {
					c = int(g.U16())
				}
				m := ms[g.Intn(len(ms))]
				switch g.Intn(8) {
				case 0:
					// a zero divisor: outside the property's domain; whatever it does (it panics), later
					// calls must be unaffected
					vf.Try(func() { color15.Color(c).MulDiv(uint8(m), 0) })
					zero++
				case 1:
					_ = color15.Color(c).Luminosity()
					_, _, _ = color15.Color(c).ToRGB()
				default:
					check(c, m, ds[g.Intn(len(ds))], &cells)
				}
			}
			r.Eval(4000)
			merge(&cells)
			r.CellN("hostile-order:zero-divisor-calls-recovered", int64(zero))
		})
		r.Cell("hostile-order:sequences")
	}
	if r.Phase("muldiv-concurrent") {
		// the closed form also when many goroutines are in MulDiv at once in steady state, each on a few
		// ratios of its own that it keeps returning to, overlapping with its neighbours' (C18 looks for
		// data races; this looks at the answers)
		workers := 16
		per := r.N(400000, 4000000)
		vf.Parallel(workers, workers, func(w, wi int) {
			g := r.Rand("conc").Fork(uint64(wi))
			var cells [3][3]int64
			ratios := [][2]int{{16, 16}, {1 + wi%4, 2}, {g.Intn(256), 1 + g.Intn(255)}, {31, 31}, {(wi / 4) + 3, 7}}
			for k := 0; k < per; k++ {
				rt := ratios[g.Intn(len(ratios))]
				if k%1024 == 0 {
					runtime.Gosched()
				}
				check(int(g.U16()), rt[0], rt[1], &cells)
			}
			r.Eval(int64(per))
			merge(&cells)
		})
		r.Cell("concurrent:steady-state")
	}
	if r.Phase("muldiv-fades") {
		// what the function is for: a palette faded in and out - the multiplicand walks up and down in
		// steps of one over a fixed divisor, every ratio applied to a handful of colours (so each ratio is
		// asked for several times in a row), with reversals, pauses and the odd jump
		nseq := r.N(48, 1024)
		vf.Parallel(1, nseq, func(w, si int) {
			g := r.Rand("fades").Fork(uint64(si))
			var cells [3][3]int64
			d := []int{31, 32, 16, 8, 255, 1 + g.Intn(255), 1 + g.Intn(64)}[g.Intn(7)]
			pal := []int{0x7FFF, 0x0000, 0x7C1F, 0x03E0, int(g.U16()), int(g.U16()), 0x4210, 0x7BDE}
			m := g.Intn(2 * d)
			if m > 255 {
				m = 255
			}
			dir := 1
			var n int64
			for step := 0; step < 600; step++ {
				reps := 1 + g.Intn(len(pal))
				if g.Intn(4) == 0 {
					reps = 1 // a ratio used only once
				}
				for k := 0; k < reps; k++ {
					check(pal[(step+k)%len(pal)], m, d, &cells)
					n++
				}
				switch g.Intn(12) {
				case 0:
					dir = -dir
				case 1: // pause: same ratio again
					continue
				case 2:
					m = g.Intn(256)
					continue
				}
				m += dir
				if m < 0 {
					m, dir = 0, 1
				}
				if m > 255 {
					m, dir = 255, -1
				}
			}
			r.Eval(n)
			merge(&cells)
		})
		r.Cell("fades:sequences")
	}
	if r.Phase("muldiv-long-gaps") {
		// one colour left alone while tens of thousands of calls with other colours and other ratios go by,
		// then asked again: gaps around 2^8, 2^16 and 2^17 calls / ratio changes (the sizes of counters)
		gaps := []int{254, 255, 256, 257, 65534, 65535, 65536, 65537, 131069, 131070, 131071, 131072}
		vf.Parallel(1, r.N(8, 64), func(w, si int) { // one goroutine: the count of calls in between is the point
			g := r.Rand("gaps").Fork(uint64(si))
			var cells [3][3]int64
			v := 1 + g.Intn(31)
			probe := v | v<<5 | v<<10
			// fillers avoid the probe's channel value; every call changes the ratio (mode 0) or a third do (mode 1)
			filler := func() int {
				for {
					c := int(g.U16()) & 0x7FFF
					if c&31 != v && c>>5&31 != v && c>>10&31 != v {
						return c
					}
				}
			}
			fills := []int{0, filler(), filler(), filler()}
			mode := si % 2
			ms := []int{1, 3, 7, 200}
			ds := []int{2, 3, 5, 255}
			k := 0
			n := int64(0)
			for _, gap := range gaps {
				check(probe, ms[g.Intn(4)], ds[g.Intn(4)], &cells)
				for i := 1; i < gap; i++ {
					k++
					if mode == 0 || i%3 == 0 {
						check(fills[i%4], ms[k%4], ds[(k/4)%4], &cells)
					} else {
						check(fills[i%4], ms[0], ds[0], &cells)
					}
				}
				n += int64(gap)
			}
			check(probe, ms[g.Intn(4)], ds[g.Intn(4)], &cells)
			r.Eval(n)
			merge(&cells)
		})
		r.Cell("long-gaps:sequences")
	}
	if r.OnlyPhase == "" {
		r.Require("long-gaps:sequences")
		r.Require("fades:sequences")
		r.Require("concurrent:steady-state")
		r.Require("hostile-order:zero-divisor-calls-recovered")
		r.Require("muldiv:r:q>=256")
		r.Require("muldiv:b:q32..255")
	}
}
