package props

import (
	"bytes"
	"fmt"
	"io"
	"os"
	"os/exec"
	"path/filepath"
	"runtime"
	"strings"
	"sync"

	snes "github.com/alttpo/snes"
	"github.com/alttpo/snes/asm"
	"github.com/alttpo/snes/color15"
	"github.com/alttpo/snes/emulator"
	"github.com/alttpo/snes/emulator/bus"

	"verif/internal/vf"
)

// The mappers are pure functions of one address. What a program does with the rest of the library
// before or between mapper calls - parsing cartridge headers of every kind, reading and writing
// through a ROM, passing the mappers arguments outside their 24-bit domain - must not change what
// they answer. libCfg is one cartridge image such a program might load.
type libCfg struct {
	mapMode, ramSize, romSize byte
	version                   int
	sumKind                   int // 0 random pair, 1 complementary pair, 2 genuine byte sum + complement
}

func (c libCfg) String() string {
	return fmt.Sprintf("map mode $%02x, RAM size code %d, ROM size code %d, header v%d, checksum kind %d", c.mapMode, c.ramSize, c.romSize, c.version, c.sumKind)
}

func libConfigs() []libCfg {
	var out []libCfg
	i := 0
	for _, mm := range []byte{0x20, 0x21, 0x22, 0x23, 0x25, 0x2A, 0x30, 0x31, 0x32, 0x33, 0x35, 0x3A} {
		for ram := byte(0); ram <= 12; ram++ {
			out = append(out, libCfg{mm, ram, byte(8 + i%6), 1 + i%3, 1 + i%2})
			i++
		}
	}
	return out
}

// image builds a 32 KiB (or larger) cartridge image with the given header at NewROM's header offset.
func (c libCfg) image(g *vf.Rng) []byte {
	size := []int{0x8000, 0x10000, 0x8000 + 0x200}[g.Intn(3)]
	b := g.Bytes(size)
	h := b[0x7FB0:0x8000]
	copy(h[0x10:], []byte(fmt.Sprintf("%-21s", "VERIF CART")))
	h[0x25], h[0x26], h[0x27], h[0x28] = c.mapMode, 0x02, c.romSize, c.ramSize
	switch c.version {
	case 3:
		h[0x2A] = 0x33
	case 2:
		h[0x24] = 0
		h[0x2A] = 0x01
	default:
		h[0x2A] = 0x01
	}
	switch c.sumKind {
	case 1:
		s := uint16(g.U32())
		h[0x2E], h[0x2F] = byte(s), byte(s>>8)
		h[0x2C], h[0x2D] = byte(^s), byte(^s>>8)
	case 2:
		// the sum over the image with the pair itself counted as $FF $FF $00 $00
		h[0x2C], h[0x2D], h[0x2E], h[0x2F] = 0xFF, 0xFF, 0, 0
		var s uint16
		for _, x := range b {
			s += uint16(x)
		}
		h[0x2E], h[0x2F] = byte(s), byte(s>>8)
		h[0x2C], h[0x2D] = byte(^s), byte(^s>>8)
	}
	return b
}

// useLibrary does what a ROM tool does with one image.
func useLibrary(g *vf.Rng, c libCfg) {
	vf.Try(func() {
		img := c.image(g)
		rom, err := snes.NewROM("verif", img)
		if err != nil || rom == nil {
			return
		}
		_ = rom.ReadHeader()
		_ = rom.Header.ROMSizeBytes()
		_ = rom.Header.RAMSizeBytes()
		_ = rom.Header.HeaderVersion()
		_ = rom.Header.Score(0x7FB0)
		_ = rom.WriteHeader()
		var tmp [64]byte
		_, _ = io.ReadFull(rom.BusReader(0x008000+uint32(g.Intn(0x7000))), tmp[:])
		_, _ = rom.BusWriter(0x008000 + uint32(g.Intn(0x7000))).Write(tmp[:g.Intn(64)])
		var h snes.Header
		_ = h.ReadHeader(bytes.NewReader(img[0x7FB0:]))
		var wb bytes.Buffer
		_ = h.WriteHeader(&wb)
	})
	consolePokes(g)
	for pkg := range apiPokeReg.byPkg { // exported functions that are new to the monitors (apipoke.go)
		apiPokes(pkg, uint64(g.U32()&0xFFFFFF), uint64(g.U8()), uint64(g.U32()))
	}
}

// consolePokes: ... and what a program that also runs the emulated console does: its software
// initialises every chip register it knows of. All of the I/O space $2000-$5FFF of one system bank is
// written twice (different values) and read back, through the bus and, for a handful of registers, by
// the emulated CPU. The console is one per process and lives on.
var libConsole struct {
	mu sync.Mutex
	s  *emulator.System
}

func consolePokes(g *vf.Rng) {
	libConsole.mu.Lock()
	defer libConsole.mu.Unlock()
	vf.Try(func() {
		if libConsole.s == nil {
			s := new(emulator.System)
			if err := s.CreateEmulator(); err != nil {
				return
			}
			libConsole.s = s
		}
		s := libConsole.s
		bank := []uint32{0x00, 0x80, 0x3F, 0xBF, 0x01}[g.Intn(5)] << 16
		for round := 0; round < 2; round++ {
			for a := uint32(0x2000); a < 0x6000; a++ {
				v := g.U8()
				if g.Intn(4) == 0 {
					v &= 0x07
				}
				vf.Try(func() { s.Bus.EaWrite(bank|a, v) })
			}
		}
		for a := uint32(0x2000); a < 0x6000; a++ {
			vf.Try(func() { _ = s.Bus.EaRead(bank | a) })
		}
		// LDA #v ; STA long ; ... ; STP from work RAM
		var prog []byte
		for i := 0; i < 12; i++ {
			a := bank | uint32(0x2000+g.Intn(0x4000))
			if i < 6 {
				a = bank | uint32([]int{0x2100, 0x2180, 0x2200, 0x2220, 0x4200, 0x4300}[i]+g.Intn(8))
			}
			prog = append(prog, 0xA9, g.U8()&0x87, 0x8F, byte(a), byte(a>>8), byte(a>>16))
		}
		prog = append(prog, 0xDB)
		copy(s.WRAM[0x1E00:], prog)
		c := &s.CPU
		c.RK, c.PC, c.E, c.M, c.X, c.Stopped = 0x7E, 0x1E00, 0, 1, 1, false
		s.RunUntil(0x7E1E00+uint32(len(prog))-1, 2000)
	})
}

// hostileDomain passes every mapper function arguments outside the 24-bit domain, for every bank
// byte, before (or between) in-domain use. The results are not judged.
func hostileDomain() {
	for _, m := range mappers {
		for b := uint32(0); b < 256; b++ {
			for _, hi := range []uint32{0x01, 0x02, 0x80, 0xFF} {
				for _, off := range []uint32{0x0000, 0x1FFF, 0x2000, 0x6000, 0x7FFF, 0x8000, 0xFFFF} {
					a := hi<<24 | b<<16 | off
					vf.Try(func() { _, _ = m.b2p(a) })
					vf.Try(func() { _, _ = m.p2b(a) })
				}
			}
		}
	}
}

var libFirst = os.Getenv("VERIF_LIB_FIRST") != ""

// libraryFirst is what a child process started with VERIF_LIB_FIRST=1 does before its first
// in-domain mapper call.
func libraryFirst(r *vf.Run) {
	if !libFirst {
		return
	}
	hostileDomain()
	g := r.Rand("libfirst")
	cfgs := libConfigs()
	for i := 0; i < 12; i++ {
		useLibrary(g, cfgs[g.Intn(len(cfgs))])
	}
	// the last image loaded: a cartridge with a small battery-backed RAM, of the map mode the seed picks
	last := libCfg{[]byte{0x20, 0x21, 0x25, 0x23, 0x30, 0x31, 0x35}[r.Seed%7], byte(1 + (r.Seed/7)%7), 9, 1 + int(r.Seed%3), 1 + int(r.Seed%2)}
	useLibrary(g, last)
	r.Cell("library-first:" + fmt.Sprintf("mode%02x", last.mapMode))
}

// sampledAddresses: every bank x (both ends of every 8 KiB page + a stride through it).
func sampledOffsets(g *vf.Rng) []uint32 {
	var offs []uint32
	for pg := uint32(0); pg < 8; pg++ {
		offs = append(offs, pg<<13, pg<<13|0x1FFF, pg<<13|uint32(g.Intn(0x2000)), pg<<13|uint32(g.Intn(0x2000)))
	}
	return offs
}

// interleavedWithLibrary: between loads of cartridge images of every kind, a sampled sweep of all
// four mappers is judged by check (the property's own per-address oracle).
func interleavedWithLibrary(r *vf.Run, check func(m *mapper, a uint32, cells map[string]int64)) {
	if os.Getenv("VERIF_CHILD") != "" || !r.Phase("interleaved-with-library") {
		return
	}
	g := r.Rand("interleaved")
	cfgs := libConfigs()
	if r.Quick() {
		// a third of the configurations per run, chosen by the seed; always all RAM sizes of the seed's modes
		var sub []libCfg
		for i, c := range cfgs {
			if (uint64(i/13)+r.Seed)%3 == 0 || c.mapMode == 0x21 || c.mapMode == 0x20 {
				sub = append(sub, c)
			}
		}
		cfgs = sub
	}
	for ci, c := range cfgs {
		useLibrary(g, c)
		if ci%16 == 0 {
			hostileDomain()
		}
		offs := sampledOffsets(g)
		r.Parallel(runtime.NumCPU(), 16, func(w, part int) {
			cells := map[string]int64{}
			for mi := range mappers {
				m := &mappers[mi]
				for bank := uint32(part) * 16; bank < uint32(part)*16+16; bank++ {
					for _, off := range offs {
						check(m, bank<<16|off, cells)
					}
				}
			}
			r.Eval(int64(4 * 16 * len(offs)))
		})
		if r.Violations() > 0 {
			r.SetExtra("interleaved_failed_after", c.String())
			break
		}
		r.Cell(fmt.Sprintf("interleaved:mode%02x", c.mapMode))
	}
}

// usedAtInitTime runs the probe programs built by ./check (initprobe/): in each, one mapper is used
// during package initialisation by a package that imports only that mapper, before the other mapper
// packages have been initialised; main then checks laws and class windows of all four on a sample.
func usedAtInitTime(r *vf.Run) {
	probes := strings.Fields(os.Getenv("VERIF_INITPROBES"))
	if os.Getenv("VERIF_CHILD") != "" || !r.Phase("used-at-init-time") {
		return
	}
	if len(probes) == 0 {
		r.SetExtra("init_time_probes", "not built (run through ./check)")
		return
	}
	for _, exe := range probes {
		b, err := exec.Command(exe).CombinedOutput()
		r.Eval(1)
		name := filepath.Base(exe)
		if ee, ok := err.(*exec.ExitError); ok && ee.ExitCode() == 1 {
			first := "probe reported a violation"
			for _, ln := range strings.Split(string(b), "\n") {
				if strings.HasPrefix(ln, "probe-violation") {
					first = ln
					break
				}
			}
			r.Fail("in-probe-program:"+strings.SplitN(name, ".", 2)[0], first, map[string]string{"probe": name})
		} else if err != nil {
			r.Inconclusive(fmt.Sprintf("init-time probe %s did not run: %v", name, err))
		} else {
			r.Cell("init-time:" + strings.SplitN(name, ".", 2)[0])
		}
	}
}

// callVolume: more than 2^31 calls in one process, all of them ending in
// "unmapped", spread over the eight functions: whatever a process-wide counter, ring or statistic may
// do at the limits of its integer type, the answers stay the same. check judges sampled addresses
// before, in between and after.
func callVolume(r *vf.Run, check func(m *mapper, a uint32)) {
	if os.Getenv("VERIF_CHILD") != "" {
		return // (the main process does it; child processes skip it)
	}
	if !r.Phase("call-volume") {
		return
	}
	const perRound = 1 << 28 // calls per round per direction, over all workers
	workers := runtime.NumCPU()
	var total int64
	sample := func(tag string) {
		for mi := range mappers {
			for bank := uint32(0); bank < 256; bank += 3 {
				for _, off := range []uint32{0x0000, 0x2000, 0x5FFF, 0x6000, 0x7FFF, 0x8000, 0xFFFF} {
					a := bank<<16 | off
					if pan := vf.Try(func() { check(&mappers[mi], a) }); pan != nil {
						r.Fail(mappers[mi].name+"-fails-after-many-calls", fmt.Sprintf("%s: a call with $%06x failed (%s, %d million calls into this process): %v", mappers[mi].name, a, tag, total>>20, pan), nil)
						return
					}
				}
			}
		}
		r.Cell("call-volume:" + tag)
	}
	sample("before")
	for round := 0; round < 5 && r.Violations() == 0; round++ { // 5 x 2 x 2^28 = 2.7e9 calls, all of them "unmapped" results
		m := &mappers[round%len(mappers)]
		r.Parallel(workers, workers, func(w, wi int) {
			per := perRound / workers
			pan := vf.Try(func() {
				// bus side: register area and expansion holes (unmapped in every mapper); pak side: the
				// unassigned window $F0-$F4
				a, p := uint32(0x002100+wi), uint32(0xF00000+wi)
				for i := 0; i < per; i++ {
					_, _ = m.b2p(a)
					_, _ = m.p2b(p)
					a = a&0x3F0000 | 0x2100 | (a+0x10001)&0x3F0FFF
					p = 0xF00000 | (p+0x1001)&0x4FFFF
				}
			})
			if pan != nil {
				r.Fail(m.name+"-fails-after-many-calls", fmt.Sprintf("%s: after some %d million calls in this process a call failed: %v", m.name, (total+int64(wi))>>20, pan), nil)
			}
		})
		total += 2 * perRound
		if round == 2 || round == 3 {
			sample(fmt.Sprintf("after-%d-million-calls", total>>20))
		}
	}
	sample("after")
	r.Eval(total)
	r.SetExtra("call_volume", total)
}

// runsThenJumps: access patterns instead of single calls - a run of consecutive addresses inside one
// 8 KiB page (what a bulk transfer does), directly followed by calls for the same offset in banks that
// differ in one or two bank bits (mirrors, and the same low bits in another memory class). check judges
// the calls after the jump.
func runsThenJumps(r *vf.Run, check func(m *mapper, a uint32)) {
	if !r.Phase("runs-then-jumps") {
		return
	}
	flips := []uint32{0x20, 0x40, 0x80, 0xC0, 0xE0, 0x10, 0x60, 0xA0, 0xD5, 0x30, 0x35}
	r.Parallel(runtime.NumCPU(), len(mappers)*16, func(w, idx int) {
		m := &mappers[idx/16]
		g := r.Rand("runs").Fork(uint64(idx))
		var n int64
		for page := uint32(idx % 16); page < 2048; page += 16 {
			for _, dir := range []int{0, 1} {
				for _, runLen := range []int{1, 3, 4, 5, 8, 17} {
					base := page<<13 | uint32(g.Intn(0x1000))
					for k := 0; k < runLen; k++ {
						if dir == 0 {
							_, _ = m.p2b(base + uint32(k))
						} else {
							_, _ = m.b2p(base + uint32(k))
						}
					}
					f := flips[g.Intn(len(flips))]
					a := (base + uint32(runLen)) ^ f<<16
					// the oracle itself makes calls in both directions; the first one is the jump
					check(m, a)
					n++
					// a walk downwards that crosses the bottom of the page (a block move with decrementing
					// addresses): the last address of the run is the first byte of the page, the judged one
					// the last byte of the page below
					top := page<<13 + uint32(runLen) - 1
					for k := 0; k < runLen; k++ {
						if dir == 0 {
							_, _ = m.p2b(top - uint32(k))
						} else {
							_, _ = m.b2p(top - uint32(k))
						}
					}
					if page > 0 {
						check(m, page<<13-1)
						n++
					}
					// ... and upwards across the top of the page
					bot := page<<13 | 0x1FFF - uint32(runLen) + 1
					for k := 0; k < runLen; k++ {
						if dir == 0 {
							_, _ = m.p2b(bot + uint32(k))
						} else {
							_, _ = m.b2p(bot + uint32(k))
						}
					}
					if page < 2047 {
						check(m, (page+1)<<13)
						n++
					}
				}
				// polling: one address asked again and again (a flag in work RAM, a status byte), then
				// another address, asked once or twice, is judged
				polled := page<<13 | uint32(g.Intn(0x2000))
				for k := []int{2, 3, 15, 16, 17, 31, 32, 33, 100, 255, 256, 257}[g.Intn(12)]; k > 0; k-- {
					if dir == 0 {
						_, _ = m.p2b(polled)
					} else {
						_, _ = m.b2p(polled)
					}
				}
				other := uint32(g.Intn(2048))<<13 | uint32(g.Intn(0x2000))
				for k := g.Intn(3); k > 0; k-- {
					if dir == 0 {
						_, _ = m.p2b(other)
					} else {
						_, _ = m.b2p(other)
					}
				}
				check(m, other)
				n++
			}
		}
		r.Eval(n)
	})
	r.Cell("runs-then-jumps")
}

// ErrorsFirst: what a process may have been through before the calls a monitor judges - every error
// path of the library taken once, as the very first use of each part (a failed header parse, an image
// that is too small, refused emitter calls, a failed Finalize, a failed listing, unattached bus reads, a
// refused Attach, a zero divisor, unmapped addresses). Run by child processes started with
// VERIF_ERRORS_FIRST=1 before the monitor itself.
func ErrorsFirst() {
	try := func(f func()) { vf.Try(f) }
	// headers: short and failing readers first
	for _, n := range []int{0, 1, 16, 63, 64, 79} {
		n := n
		try(func() { var h snes.Header; _ = h.ReadHeader(bytes.NewReader(make([]byte, n))) })
	}
	try(func() { _, _ = snes.NewROM("short", make([]byte, 100)) })
	try(func() { _, _ = snes.NewROM("", nil) })
	try(func() {
		rom, err := snes.NewROM("ok", make([]byte, 0x8000))
		if err == nil {
			_, _ = rom.BusReader(0x000000).Read(make([]byte, 4))
			_, _ = rom.BusWriter(0x000000).Write([]byte{1})
			_, _ = rom.BusWriter(0x00FFFF).Write([]byte{1, 2, 3})
			rom.HeaderOffset = 0x7FF0
			_ = rom.ReadHeader()
		}
	})
	// emitter: refusals and failures
	try(func() { e := asm.NewEmitter(make([]byte, 1), true); e.LDA_imm8_b(1) })
	try(func() { e := asm.NewEmitter(make([]byte, 8), true); e.Label("a"); e.Label("a") })
	try(func() { e := asm.NewEmitter(make([]byte, 8), false); e.REP(0x30); e.LDA_imm8_b(1) })
	try(func() { e := asm.NewEmitter(make([]byte, 8), true); e.BNE("nowhere"); _ = e.Finalize() })
	try(func() {
		e := asm.NewEmitter(make([]byte, 400), true)
		e.BRA("far")
		e.EmitBytes(make([]byte, 300))
		e.Label("far")
		_ = e.Finalize()
		_ = e.WriteTextTo(&failWriter{after: 1})
		_ = e.WriteHexTo(&failWriter{after: 0})
	})
	try(func() { e := asm.NewEmitter(nil, true); e.BNE("x"); e.Label("x"); _ = e.Finalize() })
	try(func() {
		a := asm.NewEmitter(make([]byte, 2), false)
		c := a.Clone(make([]byte, 16))
		c.EmitBytes(make([]byte, 8))
		a.Append(c)
	})
	// bus and system
	try(func() { b, _ := bus.New(); b.EaRead(0x1234) })
	try(func() { b, _ := bus.New(); b.EaWrite(0x1234, 1) })
	try(func() { b, _ := bus.New(); _ = b.Attach(&fakeMem{}, "x", 1, 0x20) })
	try(func() { b, _ := bus.New(); _ = b.EaDump(0x10, 0x40, make([]byte, 8)) })
	try(func() {
		s := new(emulator.System)
		_ = s.CreateEmulator()
		s.Logger = &failWriter{after: 0}
		s.SetPC(0x408000)
		s.RunUntil(0x123456, 10)
	})
	// colour and mappers
	try(func() { color15.Color(0x7FFF).MulDiv(3, 0) })
	for _, m := range mappers {
		m := m
		try(func() { _, _ = m.b2p(0x002100); _, _ = m.p2b(0xF00000); _, _ = m.b2p(0xFFFFFFFF) })
	}
}

// newROMAnyWay makes a ROM the way sel says: through NewROM, or as a caller who fills in the exported
// fields does (a struct literal, new+assignment, a fresh value assembled from another ROM's fields).
// A ROM is an open struct; NewROM is a convenience, not the only door.
func newROMAnyWay(sel int, name string, img []byte) (*snes.ROM, error) {
	if len(img) < 0x8000 {
		return snes.NewROM(name, img)
	}
	switch sel % 4 {
	case 1:
		r := &snes.ROM{Name: name, Contents: img, HeaderOffset: 0x7FB0}
		return r, r.ReadHeader()
	case 2:
		r := new(snes.ROM)
		r.Contents = img
		r.Name = name
		r.HeaderOffset = 0x7FB0
		return r, r.ReadHeader()
	case 3:
		a, err := snes.NewROM(name, img)
		if err != nil {
			return a, err
		}
		return &snes.ROM{Name: a.Name, Contents: a.Contents, HeaderOffset: a.HeaderOffset, Header: a.Header}, nil
	}
	return snes.NewROM(name, img)
}

// srcStrings: the string literals of the library's source (collected by ./check into the file named by
// VERIF_SRC_STRINGS): a dictionary for every input that is text - titles, names, labels, comments.
var srcStringsOnce struct {
	once sync.Once
	v    []string
}

func srcStrings() []string {
	srcStringsOnce.once.Do(func() {
		b, err := os.ReadFile(os.Getenv("VERIF_SRC_STRINGS"))
		if err != nil {
			return
		}
		for _, ln := range strings.Split(string(b), "\n") {
			if ln != "" {
				srcStringsOnce.v = append(srcStringsOnce.v, ln)
			}
		}
	})
	return srcStringsOnce.v
}
