package props

import (
	"fmt"
	"runtime"

	"github.com/alttpo/snes/emulator/bus"
	"github.com/alttpo/snes/emulator/memory"

	"verif/internal/vf"
)

func init() { reg("C13", C13) }

// fakeMem is an instrumented memory: value = hash(id, address) unless written;
// it records the last address it received.
type fakeMem struct {
	id       int
	size     uint32 // what Size() reports (0: 16 MiB): a device may be smaller than the window it is mapped over (mirrored) or larger
	lastAddr uint32
	reads    int
	writes   int
	written  map[uint32]byte
	onRead   func(a uint32) // what the device does, besides answering, when it is read (nil: nothing)
}

func fakeVal(id int, a uint32) byte {
	x := uint64(a)*0x9E3779B97F4A7C15 ^ uint64(id+1)*0xD1342543DE82EF95
	x ^= x >> 29
	x *= 0xBF58476D1CE4E5B9
	return byte(x >> 40)
}
func (f *fakeMem) Read(a uint32) byte {
	f.lastAddr = a
	f.reads++
	if f.onRead != nil {
		f.onRead(a)
	}
	if v, ok := f.written[a]; ok {
		return v
	}
	return fakeVal(f.id, a)
}
func (f *fakeMem) Write(a uint32, v byte) {
	f.lastAddr = a
	f.writes++
	if f.written == nil {
		f.written = map[uint32]byte{}
	}
	f.written[a] = v
}
func (f *fakeMem) Shutdown() {}
func (f *fakeMem) Size() uint32 {
	if f.size == 0 {
		return 1 << 24
	}
	return f.size
}
func (f *fakeMem) Clear()             {}
func (f *fakeMem) Dump(uint32) []byte { return nil }

// mirroredRAM: a device built the way Go invites - the library's RAM embedded, Read/Write overridden
// (an 8 KiB chip mirrored through a larger window). Everything else is the embedded RAM's.
type mirroredRAM struct {
	memory.RAM
	base, mask uint32
}

func (m mirroredRAM) Read(a uint32) byte     { return m.RAM.Read(m.base + (a-m.base)&m.mask) }
func (m mirroredRAM) Write(a uint32, v byte) { m.RAM.Write(m.base+(a-m.base)&m.mask, v) }

// invertingROM: the library's ROM embedded by pointer, Read overridden (a bus with inverted data lines)
type invertingROM struct {
	*memory.ROM
}

func (m invertingROM) Read(a uint32) byte { return ^m.ROM.Read(a) }

type c13mem struct {
	wrap   int // 0 none, 1 mirroredRAM (mask in wmask), 2 invertingROM
	wmask  uint32
	fake   *fakeMem
	data   []byte // real memory.RAM / memory.ROM backing store
	offset uint32
	rom    bool
	mem    memory.Memory
}

func (m *c13mem) expect(a uint32) byte {
	if m.fake != nil {
		if v, ok := m.fake.written[a]; ok {
			return v
		}
		return fakeVal(m.fake.id, a)
	}
	switch m.wrap {
	case 1:
		return m.data[(a-m.offset)&m.wmask]
	case 2:
		return ^m.data[a-m.offset]
	}
	return m.data[a-m.offset]
}

func C13(r *vf.Run) {
	r.Rule = "histories of 1-40 Attach calls over overlapping/adjacent/nested/re-attached aligned ranges (from one block to a dozen whole banks, with small overlays inside wide ranges) and misaligned ones, with instrumented fake memories and real memory.RAM/ROM at non-zero offsets; routing of every block in and next to each range, and of the same offsets in neighbouring banks and pages, probed through EaRead/EaWrite against a shadow map, then unprobed mixed sequences of EaRead/EaWrite/EaRead24_wrap with block locality; EaDump over ranges with every start residue and lengths {1,2,15,16,17,31,32,33,4096} across memory/memory and memory/hole boundaries with sentinel-filled output, every fourth dump over devices that dump the same bus into their own buffer when read; plus long-lived buses receiving 67,000+ successful Attach calls each with routing checked after every call; a cell is (overlap shape), (misaligned residue) or (dump: start residue, length class, boundary kind)"
	r.Assume = []string{"Attach ranges beyond 24 bits or with start > end are outside 'successful Attach calls over aligned ranges'"}

	type probeRes struct {
		panicked bool
		v        byte
	}
	read := func(b *bus.Bus, a uint32) (res probeRes) {
		defer func() {
			if recover() != nil {
				res.panicked = true
			}
		}()
		res.v = b.EaRead(a)
		return
	}
	write := func(b *bus.Bus, a uint32, v byte) (panicked bool) {
		defer func() {
			if recover() != nil {
				panicked = true
			}
		}()
		b.EaWrite(a, v)
		return
	}

	caseFn := func(g *vf.Rng, ci int, cells map[string]int64) {
		b, _ := bus.New()
		switch ci % 3 { // a Bus is a plain struct: callers also declare one, or hold one by value inside their own type
		case 1:
			b = new(bus.Bus)
		case 2:
			host := &struct {
				frame uint32
				b     bus.Bus
			}{}
			b = &host.b
		}
		shadow := map[uint32]int{} // block -> memory index (absent = unattached)
		var mems []*c13mem
		// work inside a window so ranges overlap often; window placed anywhere incl. top of space
		var winBase uint32
		switch g.Intn(4) {
		case 0:
			winBase = 0
		case 1:
			winBase = 0xFF0000
		default:
			winBase = uint32(g.Intn(0xFF)) << 16
		}
		const winBlocks = 0x1000 // 64 KiB of 16-byte blocks
		var hist []string
		var ranges [][2]uint32

		probe := func(a uint32, why string) bool {
			blk := a >> 4
			mi, attached := shadow[blk]
			readsBefore := -1
			if attached && mems[mi].fake != nil {
				readsBefore = mems[mi].fake.reads
			}
			res := read(b, a)
			r.Eval(1)
			if !attached {
				if !res.panicked {
					r.Fail("unattached-read-silent", fmt.Sprintf("read of never-attached $%06x returned %02x instead of failing (%s)", a, res.v, why), hist)
					return false
				}
				if !write(b, a, 0x11) {
					r.Fail("unattached-write-silent", fmt.Sprintf("write to never-attached $%06x did not fail (%s)", a, why), hist)
					return false
				}
				return true
			}
			m := mems[mi]
			if res.panicked {
				r.Fail("attached-read-panics", fmt.Sprintf("read of $%06x (attached to memory %d) panicked (%s)", a, mi, why), hist)
				return false
			}
			want := m.expect(a)
			if m.fake != nil && m.fake.reads == readsBefore {
				r.Fail("routing-read", fmt.Sprintf("read of $%06x was not delivered to memory %d, the last one attached over block $%05x (%s)", a, mi, blk, why), hist)
				return false
			}
			if m.fake != nil && m.fake.lastAddr != a {
				r.Fail("address-modified", fmt.Sprintf("memory %d received address $%06x for a read of $%06x (%s)", mi, m.fake.lastAddr, a, why), hist)
				return false
			}
			if res.v != want {
				r.Fail("routing-read", fmt.Sprintf("read $%06x = %02x, want %02x from memory %d (last attached over block $%05x) (%s)", a, res.v, want, mi, blk, why), hist)
				return false
			}
			// write through the bus and read back from the same memory
			if g.Intn(4) == 0 && !m.rom {
				nv := want ^ 0x3C
				if write(b, a, nv) {
					r.Fail("attached-write-panics", fmt.Sprintf("write $%06x panicked (%s)", a, why), hist)
					return false
				}
				if m.fake != nil {
					if m.fake.lastAddr != a || m.fake.written[a] != nv {
						r.Fail("routing-write", fmt.Sprintf("write $%06x <- %02x did not reach memory %d with the unmodified address (%s)", a, nv, mi, why), hist)
						return false
					}
				} else if m.data[a-m.offset] != nv {
					r.Fail("routing-write", fmt.Sprintf("write $%06x <- %02x did not reach RAM %d (%s)", a, nv, mi, why), hist)
					return false
				}
			}
			return true
		}
		probeAround := func(start, end uint32, why string) {
			// every block in the range when small, else its edges + a sample; plus neighbours
			sb, eb := start>>4, end>>4
			var blks []uint32
			if eb-sb <= 48 {
				for k := sb; k <= eb; k++ {
					blks = append(blks, k)
				}
			} else {
				blks = append(blks, sb, sb+1, eb-1, eb)
				for k := 0; k < 24; k++ {
					blks = append(blks, sb+uint32(g.Intn(int(eb-sb+1))))
				}
			}
			if sb > 0 {
				blks = append(blks, sb-1)
			}
			if sb > 1 {
				blks = append(blks, sb-2)
			}
			if eb < 0xFFFFF {
				blks = append(blks, eb+1)
			}
			// the same in-bank offsets in the neighbouring banks (and 4 KiB pages): a table that
			// shares or mirrors sub-tables must not leak this attach into them
			for _, stride := range []uint32{0x1000, 0x100} {
				for j := uint32(1); j <= 6; j++ {
					for _, b := range []uint32{sb, eb} {
						if b >= j*stride {
							blks = append(blks, b-j*stride)
						}
						blks = append(blks, b+j*stride)
					}
				}
			}
			for k := 0; k < 8; k++ {
				blks = append(blks, (winBase>>4)+uint32(g.Intn(winBlocks)))
			}
			blks = append(blks, uint32(g.Intn(1<<20)))
			for _, k := range blks {
				if k > 0xFFFFF {
					continue
				}
				off := uint32(g.Intn(16))
				if g.Intn(3) == 0 {
					off = []uint32{0, 15}[g.Intn(2)]
				}
				if !probe(k<<4|off, why) {
					return
				}
			}
		}

		nAttach := 1 + g.Intn(40)
		if g.Intn(12) == 0 {
			nAttach = 150 + g.Intn(200)
			cells["attach-count:many"]++
		}
		type busState struct {
			b      *bus.Bus
			shadow map[uint32]int
		}
		var forks []busState
		for ai := 0; ai < nAttach && !r.TooMany(); ai++ {
			// a Bus is a value (emulator.System embeds one): a copy made at any point is a bus of its own,
			// and what is attached to one afterwards is not the other's business
			if ai > 0 && g.Intn(14) == 0 && len(forks) < 3 {
				nb := new(bus.Bus)
				*nb = *b
				ns := make(map[uint32]int, len(shadow))
				for k, v := range shadow {
					ns[k] = v
				}
				forks = append(forks, busState{b, shadow})
				b, shadow = nb, ns
				hist = append(hist, "bus copied by value; history continues on the copy")
				cells["bus:copied-by-value"]++
			} else if len(forks) > 0 && g.Intn(5) == 0 {
				i := g.Intn(len(forks))
				forks[i], b, shadow = busState{b, shadow}, forks[i].b, forks[i].shadow
				hist = append(hist, "history continues on another of the copies")
				cells["bus:switched-between-copies"]++
			}
			// choose a range
			var sb, eb uint32
			shape := "fresh"
			if len(ranges) > 0 && g.Intn(3) != 0 {
				pr := ranges[g.Intn(len(ranges))]
				ps, pe := pr[0]>>4, pr[1]>>4
				switch g.Intn(6) {
				case 0:
					shape = "reattach-same"
					sb, eb = ps, pe
				case 1:
					shape = "nested"
					sb = ps + uint32(g.Intn(int(pe-ps+1)))
					eb = sb + uint32(g.Intn(int(pe-sb+1)))
					if g.Bool() && eb-sb > 256 { // a small overlay inside a large range
						eb = sb + uint32(g.Intn(256))
					}
					if pe-ps >= 3*4096 {
						shape = "nested-in-wide"
					}
				case 2:
					shape = "adjacent-after"
					sb = pe + 1
					eb = sb + uint32(g.Intn(64))
				case 3:
					shape = "adjacent-before"
					if ps == 0 {
						sb, eb = ps, pe
					} else {
						eb = ps - 1
						sb = eb - uint32(g.Intn(int(min(eb, 64))+1))
					}
				case 4:
					shape = "overlap-tail"
					sb = ps + uint32(g.Intn(int(pe-ps+1)))
					eb = pe + 1 + uint32(g.Intn(64))
				default:
					shape = "cover"
					sb = ps - uint32(g.Intn(int(min(ps, 16))+1))
					eb = pe + uint32(g.Intn(16))
				}
			} else if g.Intn(6) == 0 {
				// a wide range covering 3..12 whole banks, ends not necessarily bank-aligned
				shape = "wide"
				nb := uint32(3 + g.Intn(10))
				sb = uint32(g.Intn(256-int(nb)-1))<<12 - uint32(g.Intn(3))*uint32(g.Intn(4096))
				if sb > 0xFFFFF {
					sb = 0
				}
				eb = sb + nb*4096 + uint32(g.Intn(3))*uint32(g.Intn(4096)) + 4095
			} else {
				sb = winBase>>4 + uint32(g.Intn(winBlocks))
				eb = sb + uint32([]int{0, 1, 2, 15, 16, 255, 256, 2047, g.Intn(4096)}[g.Intn(9)])
			}
			if eb > 0xFFFFF {
				eb = 0xFFFFF
			}
			if sb > eb {
				sb = eb
			}
			start, end := sb<<4, eb<<4|15

			// memory kind
			mi := len(mems)
			m := &c13mem{}
			kindSel := g.Intn(4)
			if end-start > 0x20000 {
				kindSel = 3 // wide ranges use the instrumented fake (no backing array needed)
			}
			switch kindSel {
			case 0: // real RAM with an attach offset equal to start
				m.data = g.Bytes(int(end - start + 1))
				if g.Intn(3) == 0 {
					// a fresh chip: all zeroes, like every other fresh chip of its size
					m.data = make([]byte, end-start+1)
					cells["attach:zeroed-ram"]++
				}
				m.offset = start
				m.mem = memory.NewRAM(m.data, start)
			case 1: // real ROM
				m.data = g.Bytes(int(end - start + 1))
				m.offset = start
				m.rom = true
				m.mem = memory.NewROM(m.data, start)
				switch g.Intn(4) {
				case 0:
					m.wrap = 2
					m.mem = invertingROM{memory.NewROM(m.data, start)}
					cells["attach:embedding-device"]++
				case 1:
					// a RAM embedded in a mirroring device (treated as read-only here: writes are mirrored too)
					m.wrap, m.wmask = 1, []uint32{0xF, 0xFF, 0x1FFF}[g.Intn(3)]
					m.mem = mirroredRAM{memory.NewRAM(m.data, start), start, m.wmask}
					cells["attach:embedding-device"]++
				}
			default:
				m.fake = &fakeMem{id: ci*100 + mi}
				if g.Intn(3) == 0 {
					m.fake.size = []uint32{1, 16, 0x100, 0x2000, 0x8000, (end - start + 1) / 2, end - start + 1, end - start + 2}[g.Intn(8)]
					cells["attach:device-size-differs-from-window"]++
				}
				m.mem = m.fake
			}
			mems = append(mems, m)

			if g.Intn(5) == 0 {
				// misaligned attempt: must be rejected and change nothing
				ms, me := start, end
				res := 1 + uint32(g.Intn(15))
				which := g.Intn(3)
				if which != 1 {
					ms = start | res
				}
				if which != 0 {
					me = (end &^ 15) | ((res + 14) & 15) // any residue but 15
					if me&15 == 15 {
						me--
					}
				}
				if ms > me {
					continue
				}
				err := b.Attach(m.mem, "mis", ms, me)
				hist = append(hist, fmt.Sprintf("Attach(mem%d,$%06x,$%06x)=%v", mi, ms, me, err))
				r.Eval(1)
				if err == nil {
					r.Fail("misaligned-accepted", fmt.Sprintf("Attach($%06x,$%06x) with a misaligned bound returned nil", ms, me), hist)
					return
				}
				cells[fmt.Sprintf("misaligned:start%x:end%x", ms&15, me&15)]++
				probeAround(start, end, "after rejected Attach")
				continue
			}
			err := b.Attach(m.mem, "m", start, end)
			hist = append(hist, fmt.Sprintf("Attach(mem%d,$%06x,$%06x)=%v", mi, start, end, err))
			r.Eval(1)
			if err != nil {
				r.Fail("aligned-rejected", fmt.Sprintf("Attach($%06x,$%06x) of an aligned range failed: %v", start, end, err), hist)
				return
			}
			for k := sb; k <= eb; k++ {
				shadow[k] = mi
			}
			// a real RAM/ROM only has data for its own range; if it is later partly
			// overwritten its remaining blocks are still valid
			ranges = append(ranges, [2]uint32{start, end})
			cells["attach:"+shape]++
			probeAround(start, end, "after "+hist[len(hist)-1])
			// twin chips: a second device that looks exactly like the one just attached (same kind, same
			// size, same offset, same - blank - contents, same name) goes right behind it. It is another
			// device all the same.
			if m.data != nil && !m.rom && end-start < 0x4000 && end+1+(end-start) <= 0xFFFFFF && g.Intn(3) == 0 {
				span := end - start + 1
				a := &c13mem{data: make([]byte, 2*span), offset: start}
				a.mem = memory.NewRAM(a.data, start)
				t := &c13mem{data: make([]byte, 2*span), offset: start}
				t.mem = memory.NewRAM(t.data, start)
				mems = append(mems, a, t)
				ia, it := len(mems)-2, len(mems)-1
				if b.Attach(a.mem, "ram", start, end) == nil && b.Attach(t.mem, "ram", end+1, end+span) == nil {
					hist = append(hist, fmt.Sprintf("Attach(blank RAM mem%d,$%06x,$%06x); Attach(identical-looking blank RAM mem%d,$%06x,$%06x)", ia, start, end, it, end+1, end+span))
					for k := sb; k <= eb; k++ {
						shadow[k] = ia
					}
					for k := (end + 1) >> 4; k <= (end+span)>>4; k++ {
						shadow[k] = it
					}
					ranges = append(ranges, [2]uint32{end + 1, end + span})
					cells["attach:twin-chips"]++
					// a write into the second window must land in the second chip
					wa := end + 1 + uint32(g.Intn(int(span)))
					if !write(b, wa, 0x5A) && (t.data[wa-start] != 0x5A || a.data[wa-start] == 0x5A) {
						r.Fail("routing-write", fmt.Sprintf("write $%06x <- 5a: window of the second of two identical-looking blank RAMs; the byte went to the first (or nowhere)", wa), hist)
						return
					}
					probeAround(end+1, end+span, "after attaching twin chips")
				}
			}
		}
		if ci < 3 {
			r.Sample(hist)
		}

		// ---- mixed access sequences (EaRead / EaWrite / EaRead24_wrap) with block locality: no probing
		// in between, so state the bus keeps from one access to the next is exercised
		if len(ranges) > 0 {
			var seq []string
			lastA := ranges[g.Intn(len(ranges))][0]
			for k := 0; k < 80 && !r.TooMany(); k++ {
				a := lastA&^15 | uint32(g.Intn(16))
				switch g.Intn(5) {
				case 0:
					pr := ranges[g.Intn(len(ranges))]
					a = pr[0] + uint32(g.Intn(int(pr[1]-pr[0]+1)))
				case 1:
					a += 16
				case 2:
					if a >= 16 {
						a -= 16
					}
				}
				if a > 0xFFFFFF {
					a = 0xFFFFFF
				}
				if len(seq) > 6 {
					seq = seq[1:]
				}
				expectAt := func(x uint32) (byte, *c13mem, bool) {
					mi, ok := shadow[x>>4]
					if !ok {
						return 0, nil, false
					}
					return mems[mi].expect(x), mems[mi], true
				}
				switch g.Intn(4) {
				case 0, 1:
					want, _, att := expectAt(a)
					res := read(b, a)
					seq = append(seq, fmt.Sprintf("EaRead($%06x)", a))
					r.Eval(1)
					if res.panicked == att || (att && res.v != want) {
						r.Fail("sequence-read", fmt.Sprintf("after %v: EaRead($%06x) = (%02x, panicked=%v), expected (%02x, attached=%v)", seq, a, res.v, res.panicked, want, att), hist)
						return
					}
					cells["seq:read"]++
				case 2:
					_, m, att := expectAt(a)
					nv := g.U8()
					pan := write(b, a, nv)
					seq = append(seq, fmt.Sprintf("EaWrite($%06x,%02x)", a, nv))
					r.Eval(1)
					if pan == att {
						r.Fail("sequence-write", fmt.Sprintf("after %v: EaWrite($%06x) panicked=%v, attached=%v", seq, a, pan, att), hist)
						return
					}
					if att && !m.rom {
						got := byte(0)
						if m.fake != nil {
							got = m.fake.written[a]
						} else {
							got = m.data[a-m.offset]
						}
						if got != nv {
							r.Fail("sequence-write", fmt.Sprintf("after %v: the write of %02x to $%06x did not reach the memory attached there", seq, nv, a), hist)
							return
						}
					}
					cells["seq:write"]++
				default:
					bank, off := byte(a>>16), uint16(a)
					var want uint32
					att := true
					for j := 0; j < 3; j++ {
						v, _, ok := expectAt(uint32(bank)<<16 | uint32(off+uint16(j)))
						att = att && ok
						want |= uint32(v) << (8 * uint(j))
					}
					var got uint32
					pan := vf.Try(func() { got = b.EaRead24_wrap(bank, off) })
					seq = append(seq, fmt.Sprintf("EaRead24_wrap($%02x,$%04x)", bank, off))
					r.Eval(1)
					if (pan != nil) == att || (att && got != want) {
						r.Fail("sequence-read24", fmt.Sprintf("after %v: EaRead24_wrap = ($%06x, panic=%v), expected ($%06x, all three attached=%v)", seq, got, pan, want, att), hist)
						return
					}
					cells["seq:read24"]++
					a = uint32(bank)<<16 | uint32(off+2)
				}
				lastA = a
			}
		}

		// ---- EaDump
		nd := 50
		for di := 0; di < nd && len(ranges) > 0 && !r.TooMany(); di++ {
			pr := ranges[g.Intn(len(ranges))]
			length := []int{1, 2, 15, 16, 17, 31, 32, 33, 4096, 1 + g.Intn(200)}[g.Intn(10)]
			// start near a boundary of the chosen range
			var start uint32
			switch g.Intn(4) {
			case 0:
				start = pr[0] - uint32(g.Intn(int(min(pr[0], 40))+1))
			case 1:
				start = pr[1] + 1 - uint32(g.Intn(int(min(pr[1], 40))+1))
			case 2:
				start = pr[0] + uint32(g.Intn(int(pr[1]-pr[0]+1)))
			default:
				start = pr[0] + uint32(g.Intn(16))
			}
			end := start + uint32(length) - 1
			if end > 0xFFFFFF {
				end = 0xFFFFFF
				if start > end {
					start = end
				}
				length = int(end - start + 1)
			}
			data := make([]byte, length+4)
			exp := make([]byte, length+4)
			kinds := map[string]bool{}
			prev := -2
			for i := 0; i < length+4; i++ {
				a := start + uint32(i)
				mi, ok := shadow[a>>4]
				if i >= length || !ok {
					exp[i] = byte(0xE0 + i%7)
					data[i] = exp[i]
					if i < length {
						if prev >= 0 {
							kinds["mem>hole"] = true
						}
						prev = -1
					}
					continue
				}
				exp[i] = mems[mi].expect(a)
				data[i] = exp[i] ^ 0xFF // sentinel that the memory cannot return for this position
				if prev == -1 {
					kinds["hole>mem"] = true
				} else if prev >= 0 && prev != mi {
					kinds["mem>mem"] = true
				}
				prev = mi
			}
			// the caller's buffer need only reach the last attached address of the range: a dump whose tail
			// runs over a hole (or that covers nothing but a hole) still reports the size of the range
			short := ""
			if g.Intn(3) == 0 {
				lastAtt := -1
				for i := 0; i < length; i++ {
					if _, ok := shadow[(start+uint32(i))>>4]; ok {
						lastAtt = i
					}
				}
				if lastAtt+1 < length {
					keep := lastAtt + 1
					if g.Intn(3) == 0 {
						keep += g.Intn(length - lastAtt)
					}
					data = data[:keep:keep]
					if keep == 0 && g.Bool() {
						data = nil
					}
					short = fmt.Sprintf(", buffer of %d bytes (the last attached address is at position %d)", keep, lastAtt)
					cells["dump-buffer-ends-inside-trailing-hole"]++
				}
			}
			call := fmt.Sprintf("EaDump($%06x,$%06x) (start&15=%d, %d bytes%s)", start, end, start&15, length, short)
			// a device that, when read, itself dumps a stretch of the same bus into a buffer of its own (a
			// debugger's watch window, a DMA model): the outer dump still owes the caller single-read bytes
			nestedDumps := 0
			if di%4 == 3 {
				nesting := false
				scratch := make([]byte, 64)
				hook := func(a uint32) {
					if nesting || nestedDumps >= 8 {
						return
					}
					nesting = true
					defer func() { nesting = false; _ = recover() }()
					ns := a &^ 15
					if nestedDumps%2 == 1 && ns >= 16 {
						ns -= 16
					}
					if ns > 0xFFFFC0 {
						ns = 0xFFFFC0 // (the nested range stays inside the 24-bit space)
					}
					nestedDumps++
					b.EaDump(ns, ns+uint32(16+nestedDumps*5)-1, scratch)
				}
				for _, m := range mems {
					if m.fake != nil {
						m.fake.onRead = hook
					}
				}
				call += ", devices that dump the bus from their own Read"
			}
			var n int
			panicked := func() (p interface{}) {
				defer func() { p = recover() }()
				n = b.EaDump(start, end, data)
				return nil
			}()
			for _, m := range mems {
				if m.fake != nil {
					m.fake.onRead = nil
				}
			}
			if nestedDumps > 0 {
				cells["dump-with-nested-dumps-from-devices"]++
			}
			r.Eval(1)
			bk := "single"
			for _, k := range []string{"mem>mem", "mem>hole", "hole>mem"} {
				if kinds[k] {
					bk = k
				}
			}
			key := "dump-aligned"
			if start&15 != 0 {
				key = "dump-unaligned-start"
			}
			if panicked != nil {
				r.Fail(key+"-panic", fmt.Sprintf("%s panicked: %v", call, panicked), hist)
			} else if n != length {
				r.Fail(key+"-count", fmt.Sprintf("%s returned %d, want %d", call, n, length), hist)
			} else {
				for i := range data {
					if data[i] != exp[i] {
						what := "differs from a single read"
						if _, ok := shadow[(start+uint32(i))>>4]; !ok || i >= length {
							what = "position of an unattached address (or beyond the range) was modified"
						}
						r.Fail(key+"-content", fmt.Sprintf("%s: data[%d]=%02x want %02x: %s; boundary kind %s", call, i, data[i], exp[i], what, bk), hist)
						break
					}
				}
			}
			lc := fmt.Sprint(length)
			if length > 33 && length != 4096 {
				lc = "other"
			}
			cells[fmt.Sprintf("dump:res%d:len%s", start&15, lc)]++
			cells["dump-boundary:"+bk]++
		}
	}

	if r.Phase("histories") {
		chunks := r.N(96, 6000)
		r.Parallel(runtime.NumCPU(), chunks, func(w, ci int) {
			g := r.Rand("hist").Fork(uint64(ci))
			cells := map[string]int64{}
			for k := 0; k < 16 && !r.TooMany(); k++ {
				caseFn(g, ci*16+k, cells)
			}
			r.MergeCells(cells)
		})
	}
	if r.Phase("sparse-banks") {
		// the scale of a dump against the scale of what is attached: a few tiny devices (a register file, a
		// mailbox, a patch area of 16-512 bytes) alone in otherwise empty banks, and dumps that take in whole
		// banks from outside them (64-330 KiB)
		chunks := r.N(48, 1200)
		r.Parallel(runtime.NumCPU(), chunks, func(w, ci int) {
			g := r.Rand("sparse").Fork(uint64(ci))
			cells := map[string]int64{}
			for k := 0; k < 6 && !r.TooMany(); k++ {
				b, _ := bus.New()
				bank0 := uint32(1 + g.Intn(0xFA))
				nb := 1 + g.Intn(3)
				owner := map[uint32]int{} // 16-byte block -> device id
				var hist []string
				ndev := 1 + g.Intn(5)
				onPageStart := false
				for d := 1; d <= ndev; d++ {
					size := uint32(16 << uint(g.Intn(6)))
					off := uint32(g.Intn(0x10000)) &^ 15
					if g.Intn(3) != 0 {
						off = uint32(g.Intn(16))<<12 + uint32(16+16*g.Intn(200)) // away from the 4 KiB marks
					}
					st := (bank0+uint32(g.Intn(nb)))<<16 | off
					if off+size > 0x10000 {
						size = 0x10000 - off
					}
					if err := b.Attach(&fakeMem{id: d}, "tiny", st, st+size-1); err != nil {
						continue
					}
					hist = append(hist, fmt.Sprintf("Attach(dev%d,$%06x,$%06x)", d, st, st+size-1))
					for a := st; a < st+size; a += 16 {
						owner[a>>4] = d
						onPageStart = onPageStart || a&0xFFF == 0
					}
				}
				for di := 0; di < 3; di++ {
					start := bank0<<16 - uint32([]int{0, 1, 16, 0x1000, 0x8000, 0xFFFF}[g.Intn(6)])
					end := (bank0+uint32(nb))<<16 - 1 + uint32([]int{0, 1, 15, 16, 0x1000, 0x10000}[g.Intn(6)])
					if di == 2 {
						start = bank0<<16 + uint32(g.Intn(0x100))
					}
					n := int(end - start + 1)
					data, exp := make([]byte, n), make([]byte, n)
					for i := range data {
						a := start + uint32(i)
						if d, ok := owner[a>>4]; ok {
							exp[i] = fakeVal(d, a)
							data[i] = ^exp[i]
						} else {
							exp[i] = byte(0xE0 + i%7)
							data[i] = exp[i]
						}
					}
					var got int
					pan := vf.Try(func() { got = b.EaDump(start, end, data) })
					r.Eval(1)
					call := fmt.Sprintf("after %v: EaDump($%06x,$%06x) (%d bytes)", hist, start, end, n)
					switch {
					case pan != nil:
						r.Fail("sparse-dump-panic", fmt.Sprintf("%s panicked: %v", call, pan), nil)
					case got != n:
						r.Fail("sparse-dump-count", fmt.Sprintf("%s returned %d", call, got), nil)
					default:
						if i := firstDiff(data, exp); i >= 0 && i < n {
							what := "differs from a single read"
							if _, ok := owner[(start+uint32(i))>>4]; !ok {
								what = "position of an unattached address was modified"
							}
							r.Fail("sparse-dump-content", fmt.Sprintf("%s: data[%d] ($%06x) = %02x want %02x: %s", call, i, start+uint32(i), data[i], exp[i], what), nil)
						}
					}
				}
				if onPageStart {
					cells["sparse:device-on-a-4k-mark"]++
				} else {
					cells["sparse:no-device-on-a-4k-mark"]++
				}
			}
			r.MergeCells(cells)
		})
	}
	if r.Phase("long-lived-bus") {
		// one bus that keeps being re-attached for its whole life (a host swapping handlers every
		// frame): tens of thousands of successful Attach calls, routing checked after every one
		nbus := r.N(4, 16)
		total := r.N(67000, 200000)
		r.Parallel(runtime.NumCPU(), nbus, func(w, bi int) {
			g := r.Rand("longbus").Fork(uint64(bi))
			b, _ := bus.New()
			owner := make([]int32, 1<<20) // block -> index of the memory attached last (-1: never attached)
			for i := range owner {
				owner[i] = -1
			}
			var fakes []*fakeMem
			var live []uint32 // blocks known to be attached (sample)
			cells := map[string]int64{}
			wins := []uint32{0x000000, uint32(1+g.Intn(0xFD)) << 16, 0xFF0000}
			check := func(a uint32, n int, why string) bool {
				mi := owner[a>>4]
				res := read(b, a)
				r.Eval(1)
				if mi < 0 {
					if !res.panicked {
						r.Fail("long-lived-unattached-served", fmt.Sprintf("after %d successful Attach calls on one bus: read of never-attached $%06x returned %02x instead of failing (%s)", n, a, res.v, why), nil)
						return false
					}
					return true
				}
				f := fakes[mi]
				if res.panicked {
					r.Fail("long-lived-attached-fails", fmt.Sprintf("after %d successful Attach calls on one bus: read of $%06x failed although memory #%d is attached there (%s)", n, a, mi, why), nil)
					return false
				}
				if f.lastAddr != a || res.v != fakeVal(f.id, a) {
					r.Fail("long-lived-routing", fmt.Sprintf("after %d successful Attach calls on one bus: read of $%06x = %02x, want %02x from memory #%d, the last attached there (it last saw address $%06x) (%s)", n, a, res.v, fakeVal(f.id, a), mi, f.lastAddr, why), nil)
					return false
				}
				return true
			}
			n := 0
			for n < total && !r.TooMany() {
				win := wins[g.Intn(len(wins))]
				sb := win>>4 + uint32(g.Intn(0x1000))
				nb := uint32(1 + g.Intn(8))
				if g.Intn(64) == 0 {
					nb = uint32(1 + g.Intn(0x400))
				}
				eb := sb + nb - 1
				if eb > 0xFFFFF {
					eb = 0xFFFFF
				}
				f := &fakeMem{id: len(fakes)}
				if err := b.Attach(f, "m", sb<<4, eb<<4|15); err != nil {
					cells["long:attach-refused"]++ // not a successful Attach: nothing to expect from it
					if cells["long:attach-refused"] > 1000 {
						break
					}
					continue
				}
				n++
				fakes = append(fakes, f)
				for k := sb; k <= eb; k++ {
					owner[k] = int32(len(fakes) - 1)
				}
				if len(live) < 4096 {
					live = append(live, sb)
				} else {
					live[g.Intn(len(live))] = eb
				}
				ok := check(sb<<4|uint32(g.Intn(16)), n, "inside the range just attached") &&
					check(eb<<4|uint32(g.Intn(16)), n, "end of the range just attached") &&
					check(live[g.Intn(len(live))]<<4|uint32(g.Intn(16)), n, "a range attached earlier")
				if ok && sb > 0 {
					ok = check((sb-1)<<4|15, n, "block before the range just attached")
				}
				if ok && g.Intn(4) == 0 {
					ok = check(uint32(g.Intn(1<<20))<<4, n, "random block")
				}
				if !ok {
					break
				}
				if n%4096 == 0 {
					// EaDump across the newest range and its surroundings against byte-wise expectations
					start := (sb << 4) - uint32(g.Intn(40))
					if start > sb<<4 {
						start = 0
					}
					length := uint32(48 + g.Intn(200))
					if start+length-1 > 0xFFFFFF {
						length = 0x1000000 - start // (a range that ends beyond the 24-bit space is outside the statement)
					}
					out := make([]byte, length)
					for i := range out {
						out[i] = 0xA7
					}
					var cnt uint32
					pan := vf.Try(func() { cnt = uint32(b.EaDump(start, start+length-1, out)) })
					if pan == nil {
						for i := uint32(0); i < length; i++ {
							a := start + i
							want := byte(0xA7)
							if mi := owner[a>>4]; mi >= 0 {
								want = fakeVal(fakes[mi].id, a)
							}
							if out[i] != want || cnt != length {
								r.Fail("long-lived-dump", fmt.Sprintf("after %d successful Attach calls on one bus: EaDump($%06x,+%d) returned %d, position %d = %02x want %02x", n, start, length, cnt, i, out[i], want), nil)
								break
							}
						}
					}
					cells["long:dumps"]++
				}
				switch {
				case n == 65535, n == 65536, n == 65537:
					cells[fmt.Sprintf("long:attach-count-%d", n)]++
				case n%16384 == 0:
					cells[fmt.Sprintf("long:attach-count-%dk", n/1024)]++
				}
			}
			r.MergeCells(cells)
		})
	}
	if r.OnlyPhase == "" {
		r.Require("long:attach-count-65536")
		r.Require("long:attach-count-65537")
		for _, c := range []string{"seq:read24", "seq:write", "attach:nested", "attach:wide", "attach:nested-in-wide", "attach:reattach-same", "attach:adjacent-after", "attach:overlap-tail", "dump-boundary:mem>mem", "dump-boundary:mem>hole", "dump-boundary:hole>mem", "dump-buffer-ends-inside-trailing-hole", "sparse:no-device-on-a-4k-mark"} {
			r.Require(c)
		}
	}
}
