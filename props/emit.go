package props

import (
	"fmt"
	"reflect"
	"sort"
	"strings"

	"github.com/alttpo/snes/asm"

	"verif/internal/ref"
	"verif/internal/vf"
)

// ---------------------------------------------------------------- method table

type argKind int

const (
	aNone argKind = iota
	aU8
	aU16
	aU24
	aI8
	aLHB   // lo, hi, bank bytes
	aLH    // lo, hi bytes
	aBanks // dest bank, src bank
	aFlags
	aLabel8
	aLabel16
)

type guard int

const (
	gNone guard = iota
	gM8
	gM16
	gX8
	gX16
)

type emMethod struct {
	Name       string
	Mnem       string
	Mode       ref.Mode
	Arg        argKind
	Guard      guard
	Transfer   bool // taken control transfer / flag restore / stop: excluded from straight-line programs
	Discovered bool // not in the hand-written table: read from the method's name and signature (discover.go)
	op         byte
	m          ref.Mnem
}

func (m *emMethod) size() int {
	switch m.Arg {
	case aNone:
		return 1
	case aU8, aI8, aFlags, aLabel8:
		return 2
	case aU16, aLH, aBanks, aLabel16:
		return 3
	}
	return 4
}

// The "named after" relation: method name -> (mnemonic, addressing mode,
// operand kind, width precondition). Opcode bytes come from ref's own matrix.
var emMethods = []*emMethod{
	{Name: "REP", Mnem: "rep", Mode: ref.Imm8, Arg: aFlags},
	{Name: "SEP", Mnem: "sep", Mode: ref.Imm8, Arg: aFlags},
	{Name: "NOP", Mnem: "nop", Mode: ref.Imp},
	{Name: "JSR_abs", Mnem: "jsr", Mode: ref.Abs, Arg: aU16, Transfer: true},
	{Name: "JSL", Mnem: "jsl", Mode: ref.AbsL, Arg: aU24, Transfer: true},
	{Name: "JSL_lhb", Mnem: "jsl", Mode: ref.AbsL, Arg: aLHB, Transfer: true},
	{Name: "JML", Mnem: "jml", Mode: ref.AbsL, Arg: aU24, Transfer: true},
	{Name: "RTS", Mnem: "rts", Mode: ref.Imp, Transfer: true},
	{Name: "RTL", Mnem: "rtl", Mode: ref.Imp, Transfer: true},
	{Name: "RTI", Mnem: "rti", Mode: ref.Imp, Transfer: true},
	{Name: "LDA_imm8_b", Mnem: "lda", Mode: ref.ImmM, Arg: aU8, Guard: gM8},
	{Name: "LDA_imm16_w", Mnem: "lda", Mode: ref.ImmM, Arg: aU16, Guard: gM16},
	{Name: "LDA_imm16_lh", Mnem: "lda", Mode: ref.ImmM, Arg: aLH, Guard: gM16},
	{Name: "LDA_long", Mnem: "lda", Mode: ref.AbsL, Arg: aU24},
	{Name: "LDA_abs", Mnem: "lda", Mode: ref.Abs, Arg: aU16},
	{Name: "LDA_abs_x", Mnem: "lda", Mode: ref.AbsX, Arg: aU16},
	{Name: "LDA_long_x", Mnem: "lda", Mode: ref.AbsLX, Arg: aU24},
	{Name: "STA_long", Mnem: "sta", Mode: ref.AbsL, Arg: aU24},
	{Name: "STA_abs", Mnem: "sta", Mode: ref.Abs, Arg: aU16},
	{Name: "STA_abs_x", Mnem: "sta", Mode: ref.AbsX, Arg: aU16},
	{Name: "STA_dp", Mnem: "sta", Mode: ref.Dp, Arg: aU8},
	{Name: "STY_abs", Mnem: "sty", Mode: ref.Abs, Arg: aU16},
	{Name: "STY_dp", Mnem: "sty", Mode: ref.Dp, Arg: aU8},
	{Name: "STY_dp_x", Mnem: "sty", Mode: ref.DpX, Arg: aU8},
	{Name: "ORA_long", Mnem: "ora", Mode: ref.AbsL, Arg: aU24},
	{Name: "ORA_imm8_b", Mnem: "ora", Mode: ref.ImmM, Arg: aU8, Guard: gM8},
	{Name: "ORA_imm16_w", Mnem: "ora", Mode: ref.ImmM, Arg: aU16, Guard: gM16},
	{Name: "CMP_imm8_b", Mnem: "cmp", Mode: ref.ImmM, Arg: aU8, Guard: gM8},
	{Name: "CMP_imm16_w", Mnem: "cmp", Mode: ref.ImmM, Arg: aU16, Guard: gM16},
	{Name: "CMP_long", Mnem: "cmp", Mode: ref.AbsL, Arg: aU24},
	{Name: "BNE_imm8", Mnem: "bne", Mode: ref.Rel8, Arg: aI8, Transfer: true},
	{Name: "BNE", Mnem: "bne", Mode: ref.Rel8, Arg: aLabel8, Transfer: true},
	{Name: "BEQ_imm8", Mnem: "beq", Mode: ref.Rel8, Arg: aI8, Transfer: true},
	{Name: "BEQ", Mnem: "beq", Mode: ref.Rel8, Arg: aLabel8, Transfer: true},
	{Name: "BPL_imm8", Mnem: "bpl", Mode: ref.Rel8, Arg: aI8, Transfer: true},
	{Name: "BPL", Mnem: "bpl", Mode: ref.Rel8, Arg: aLabel8, Transfer: true},
	{Name: "BMI", Mnem: "bmi", Mode: ref.Rel8, Arg: aLabel8, Transfer: true},
	{Name: "BCC", Mnem: "bcc", Mode: ref.Rel8, Arg: aLabel8, Transfer: true},
	{Name: "BCS", Mnem: "bcs", Mode: ref.Rel8, Arg: aLabel8, Transfer: true},
	{Name: "BRA_imm8", Mnem: "bra", Mode: ref.Rel8, Arg: aI8, Transfer: true},
	{Name: "BRA", Mnem: "bra", Mode: ref.Rel8, Arg: aLabel8, Transfer: true},
	{Name: "JMP_abs", Mnem: "jmp", Mode: ref.Abs, Arg: aLabel16, Transfer: true},
	{Name: "JMP_abs_imm16_w", Mnem: "jmp", Mode: ref.Abs, Arg: aU16, Transfer: true},
	{Name: "ADC_imm8_b", Mnem: "adc", Mode: ref.ImmM, Arg: aU8, Guard: gM8},
	{Name: "CPY_imm8_b", Mnem: "cpy", Mode: ref.ImmX, Arg: aU8, Guard: gX8},
	{Name: "LDY_abs", Mnem: "ldy", Mode: ref.Abs, Arg: aU16},
	{Name: "STZ_dp", Mnem: "stz", Mode: ref.Dp, Arg: aU8},
	{Name: "STZ_abs", Mnem: "stz", Mode: ref.Abs, Arg: aU16},
	{Name: "STZ_abs_x", Mnem: "stz", Mode: ref.AbsX, Arg: aU16},
	{Name: "INC_dp", Mnem: "inc", Mode: ref.Dp, Arg: aU8},
	{Name: "INC_abs", Mnem: "inc", Mode: ref.Abs, Arg: aU16},
	{Name: "DEC_dp", Mnem: "dec", Mode: ref.Dp, Arg: aU8},
	{Name: "DEC_abs", Mnem: "dec", Mode: ref.Abs, Arg: aU16},
	{Name: "LDA_dp", Mnem: "lda", Mode: ref.Dp, Arg: aU8},
	{Name: "LDX_imm8_b", Mnem: "ldx", Mode: ref.ImmX, Arg: aU8, Guard: gX8},
	{Name: "LDX_abs", Mnem: "ldx", Mode: ref.Abs, Arg: aU16},
	{Name: "STX_abs", Mnem: "stx", Mode: ref.Abs, Arg: aU16},
	{Name: "DEX", Mnem: "dex", Mode: ref.Imp},
	{Name: "DEY", Mnem: "dey", Mode: ref.Imp},
	{Name: "AND_imm8_b", Mnem: "and", Mode: ref.ImmM, Arg: aU8, Guard: gM8},
	{Name: "AND_imm16_w", Mnem: "and", Mode: ref.ImmM, Arg: aU16, Guard: gM16},
	{Name: "PHB", Mnem: "phb", Mode: ref.Imp},
	{Name: "PHA", Mnem: "pha", Mode: ref.Imp},
	{Name: "PHX", Mnem: "phx", Mode: ref.Imp},
	{Name: "PHY", Mnem: "phy", Mode: ref.Imp},
	{Name: "PHP", Mnem: "php", Mode: ref.Imp},
	{Name: "PHD", Mnem: "phd", Mode: ref.Imp},
	{Name: "PHK", Mnem: "phk", Mode: ref.Imp},
	{Name: "TCD", Mnem: "tcd", Mode: ref.Imp},
	{Name: "PLD", Mnem: "pld", Mode: ref.Imp},
	{Name: "PLP", Mnem: "plp", Mode: ref.Imp, Transfer: true},
	{Name: "PLY", Mnem: "ply", Mode: ref.Imp},
	{Name: "PLX", Mnem: "plx", Mode: ref.Imp},
	{Name: "PLA", Mnem: "pla", Mode: ref.Imp},
	{Name: "PLB", Mnem: "plb", Mode: ref.Imp},
	{Name: "LDX_imm16_w", Mnem: "ldx", Mode: ref.ImmX, Arg: aU16, Guard: gX16},
	{Name: "LDY_imm16_w", Mnem: "ldy", Mode: ref.ImmX, Arg: aU16, Guard: gX16},
	{Name: "LDY_imm8_b", Mnem: "ldy", Mode: ref.ImmX, Arg: aU8, Guard: gX8},
	{Name: "MVN", Mnem: "mvn", Mode: ref.BlockMv, Arg: aBanks},
	{Name: "JMP_indirect", Mnem: "jmp", Mode: ref.AbsInd, Arg: aU16, Transfer: true},
	{Name: "XBA", Mnem: "xba", Mode: ref.Imp},
	{Name: "SEI", Mnem: "sei", Mode: ref.Imp},
	{Name: "CLI", Mnem: "cli", Mode: ref.Imp},
	{Name: "WDM", Mnem: "wdm", Mode: ref.Imm8, Arg: aU8},
	{Name: "CLC", Mnem: "clc", Mode: ref.Imp},
	{Name: "STP", Mnem: "stp", Mode: ref.Imp, Transfer: true},
	{Name: "TXA", Mnem: "txa", Mode: ref.Imp},
	{Name: "TAX", Mnem: "tax", Mode: ref.Imp},
	{Name: "SBC_imm8_b", Mnem: "sbc", Mode: ref.ImmM, Arg: aU8, Guard: gM8},
	{Name: "ASL", Mnem: "asl", Mode: ref.Acc},
}

// methods of *asm.Emitter that are not instruction emitters
var emNonInstruction = map[string]bool{
	"Clone": true, "Append": true, "WriteTextTo": true, "WriteHexTo": true, "Finalize": true, "Label": true,
	"GetLabel": true, "Cap": true, "Len": true, "Bytes": true, "PC": true, "SetBase": true, "GetBase": true,
	"Comment": true, "EmitBytes": true, "Flags": true, "IsX16bit": true, "IsM16bit": true, "AssumeREP": true,
	"AssumeSEP": true,
}

var emByName = map[string]*emMethod{}

func init() {
	discoverMethods()
	for _, m := range emMethods {
		mn, ok := ref.MnemByName(m.Mnem)
		if !ok {
			panic("emit table: unknown mnemonic " + m.Mnem)
		}
		op, ok := ref.FindOp(mn, m.Mode)
		if !ok {
			panic("emit table: no opcode for " + m.Name)
		}
		m.op, m.m = op, mn
		emByName[m.Name] = m
	}
}

// unmappedEmitterMethods lists exported methods of *asm.Emitter that are in neither table.
func unmappedEmitterMethods() (unmapped []string, missing []string) {
	t := reflect.TypeOf(&asm.Emitter{})
	seen := map[string]bool{}
	for i := 0; i < t.NumMethod(); i++ {
		n := t.Method(i).Name
		seen[n] = true
		if emByName[n] == nil && !emNonInstruction[n] {
			long := false
			for _, m := range emLabelLong {
				long = long || m.Name == n
			}
			if !long {
				unmapped = append(unmapped, n)
			}
		}
	}
	for _, m := range emMethods {
		if !seen[m.Name] {
			missing = append(missing, m.Name)
		}
	}
	return
}

func guardOK(g guard, e *asm.Emitter) bool {
	switch g {
	case gM8:
		return !e.IsM16bit()
	case gM16:
		return e.IsM16bit()
	case gX8:
		return !e.IsX16bit()
	case gX16:
		return e.IsX16bit()
	}
	return true
}

func guardOKFlags(g guard, f byte) bool {
	switch g {
	case gM8:
		return f&0x20 != 0
	case gM16:
		return f&0x20 == 0
	case gX8:
		return f&0x10 != 0
	case gX16:
		return f&0x10 == 0
	}
	return true
}

// ---------------------------------------------------------------- calls

type hcall struct {
	Op   string // ins | label | data | comment | setbase | assumerep | assumesep
	M    *emMethod
	Arg  uint32
	S    string
	Data []byte
}

func (c hcall) String() string {
	switch c.Op {
	case "ins":
		if c.M.Arg == aLabel8 || c.M.Arg == aLabel16 {
			return fmt.Sprintf("%s(%q)", c.M.Name, c.S)
		}
		if c.M.Arg == aNone {
			return c.M.Name + "()"
		}
		return fmt.Sprintf("%s($%x)", c.M.Name, c.Arg)
	case "label":
		return fmt.Sprintf("Label(%q)", c.S)
	case "data":
		return fmt.Sprintf("EmitBytes(%d bytes)", len(c.Data))
	case "comment":
		return fmt.Sprintf("Comment(%d chars)", len(c.S))
	case "setbase":
		return fmt.Sprintf("SetBase($%06x)", c.Arg)
	}
	return fmt.Sprintf("%s($%02x)", c.Op, c.Arg)
}

func histStrings(h []hcall) []string {
	out := make([]string, len(h))
	for i, c := range h {
		out[i] = c.String()
	}
	return out
}

// expected operand bytes of an instruction call (label refs: placeholder $FF)
func (c hcall) bytes() []byte {
	switch c.Op {
	case "data":
		return c.Data
	case "ins":
		m := c.M
		switch m.Arg {
		case aNone:
			return []byte{m.op}
		case aU8, aI8, aFlags:
			return []byte{m.op, byte(c.Arg)}
		case aU16, aLH, aBanks:
			return []byte{m.op, byte(c.Arg), byte(c.Arg >> 8)}
		case aU24, aLHB:
			return []byte{m.op, byte(c.Arg), byte(c.Arg >> 8), byte(c.Arg >> 16)}
		case aLabel8:
			return []byte{m.op, 0xFF}
		case aLabel16:
			return []byte{m.op, 0xFF, 0xFF}
		}
	}
	return nil
}

// invoke performs the call on the real emitter; a panic is returned, not propagated.
func invoke(e *asm.Emitter, c hcall) (pan interface{}) {
	defer func() { pan = recover() }()
	switch c.Op {
	case "label":
		e.Label(c.S)
	case "data":
		// the caller owns its buffer: hand over a private copy and reuse (scribble over) it
		// right after the call, as a caller filling one scratch buffer repeatedly would
		if n := len(c.Data); n >= 2 && c.Data[0]%4 == 0 && e.Cap() >= e.Len()+2*n {
			// ... or the source lies in the target itself, a little ahead of the write position and
			// overlapping the destination (a table built in place and then moved down into position)
			b := e.Bytes()
			at := len(b) + 1 + int(c.Data[1])%(n-1)
			if b != nil && at+n <= cap(b) && at+n <= e.Cap() {
				region := b[at : at+n : at+n]
				saved := append([]byte(nil), region...)
				copy(region, c.Data)
				defer func() { // what is still free space afterwards is given back as it was
					for i := range region {
						if at+i >= e.Len() {
							region[i] = saved[i]
						}
					}
				}()
				e.EmitBytes(region)
				return nil
			}
		}
		tmp := append([]byte(nil), c.Data...)
		defer func() {
			for i := range tmp {
				tmp[i] ^= 0xA5
			}
		}()
		e.EmitBytes(tmp)
	case "comment":
		e.Comment(c.S)
	case "setbase":
		e.SetBase(c.Arg)
	case "assumerep":
		e.AssumeREP(asm.Flags(c.Arg))
	case "assumesep":
		e.AssumeSEP(asm.Flags(c.Arg))
	case "ins":
		callMethod(e, c.M, c.Arg, c.S)
	}
	return nil
}

func callMethod(e *asm.Emitter, m *emMethod, arg uint32, label string) {
	f := reflect.ValueOf(e).MethodByName(m.Name).Interface()
	switch m.Arg {
	case aNone:
		f.(func())()
	case aU8:
		f.(func(uint8))(uint8(arg))
	case aI8:
		f.(func(int8))(int8(arg))
	case aU16:
		f.(func(uint16))(uint16(arg))
	case aU24:
		f.(func(uint32))(arg)
	case aLHB:
		f.(func(uint8, uint8, uint8))(uint8(arg), uint8(arg>>8), uint8(arg>>16))
	case aLH, aBanks:
		f.(func(uint8, uint8))(uint8(arg), uint8(arg>>8))
	case aFlags:
		f.(func(asm.Flags))(asm.Flags(arg))
	case aLabel8, aLabel16:
		f.(func(string))(label)
	}
}

// ---------------------------------------------------------------- shadow model

type shRef struct {
	kind    int // 8 or 16
	label   string
	insAddr uint32 // address of the opcode
	opAddr  uint32 // address of the first operand byte
}

type shLine struct {
	kind  string // base | comment | label | db | ins
	addr  uint32
	bytes []byte
	text  string
	label string // label-taking instruction: the label
}

type shadow struct {
	base, addr uint32
	baseSet    bool // pending base directive (listing)
	code       []byte
	starts     []uint32 // instruction start addresses
	labels     map[string]uint32
	refs       []shRef
	lines      []shLine
	flags      byte
	listing    bool
}

func newShadow(listing bool) *shadow {
	return &shadow{labels: map[string]uint32{}, listing: listing}
}

func (s *shadow) clone() *shadow {
	n := *s
	n.code = append([]byte(nil), s.code...)
	n.starts = append([]uint32(nil), s.starts...)
	n.refs = append([]shRef(nil), s.refs...)
	n.lines = append([]shLine(nil), s.lines...)
	n.labels = map[string]uint32{}
	for k, v := range s.labels {
		n.labels[k] = v
	}
	return &n
}

// size of the bytes the call would emit
func (c hcall) size() int {
	switch c.Op {
	case "data":
		return len(c.Data)
	case "ins":
		return c.M.size()
	}
	return 0
}

// legal reports whether the emitter must accept the call (ignoring capacity).
func (s *shadow) legal(c hcall) bool {
	switch c.Op {
	case "label":
		_, dup := s.labels[c.S]
		return !dup
	case "ins":
		return guardOKFlags(c.M.Guard, s.flags)
	}
	return true
}

func (s *shadow) emitBaseLine() {
	if s.listing && s.baseSet {
		s.lines = append(s.lines, shLine{kind: "base", addr: s.addr})
		s.baseSet = false
	}
}

// apply updates the shadow for an accepted call.
func (s *shadow) apply(c hcall) {
	switch c.Op {
	case "setbase":
		s.base, s.addr, s.baseSet = c.Arg, c.Arg, true
	case "assumerep":
		s.flags &^= byte(c.Arg)
	case "assumesep":
		s.flags |= byte(c.Arg)
	case "label":
		s.labels[c.S] = s.addr
		if s.listing {
			s.emitBaseLine() // the base directive was issued before this label
			s.lines = append(s.lines, shLine{kind: "label", addr: s.addr, text: c.S})
		}
	case "comment":
		if s.listing {
			s.emitBaseLine()
			s.lines = append(s.lines, shLine{kind: "comment", addr: s.addr, text: c.S})
		}
	case "data":
		s.emitBaseLine()
		if s.listing {
			for i := 0; i < len(c.Data); i += 16 {
				j := min(i+16, len(c.Data))
				s.lines = append(s.lines, shLine{kind: "db", addr: s.addr + uint32(i), bytes: c.Data[i:j]})
			}
		}
		s.code = append(s.code, c.Data...)
		s.addr += uint32(len(c.Data))
	case "ins":
		m := c.M
		if m.Name == "REP" {
			s.flags &^= byte(c.Arg)
		} else if m.Name == "SEP" {
			s.flags |= byte(c.Arg)
		}
		b := c.bytes()
		s.emitBaseLine()
		if s.listing {
			ln := shLine{kind: "ins", addr: s.addr, bytes: b, text: m.Mnem}
			if m.Arg == aLabel8 || m.Arg == aLabel16 {
				ln.label = c.S
			}
			s.lines = append(s.lines, ln)
		}
		s.starts = append(s.starts, s.addr)
		switch m.Arg {
		case aLabel8:
			s.refs = append(s.refs, shRef{8, c.S, s.addr, s.addr + 1})
		case aLabel16:
			s.refs = append(s.refs, shRef{16, c.S, s.addr, s.addr + 1})
		}
		s.code = append(s.code, b...)
		s.addr += uint32(len(b))
	}
}

type finalizeExpect struct {
	ok        bool
	code      []byte          // expected bytes on success
	failing   []shRef         // refs that are unresolved or out of range
	operandAt map[uint32]bool // offsets (into code) that are operand bytes of label references
}

func (s *shadow) expectFinalize() finalizeExpect {
	fe := finalizeExpect{ok: true, code: append([]byte(nil), s.code...), operandAt: map[uint32]bool{}}
	for _, rf := range s.refs {
		o := rf.opAddr - s.base
		fe.operandAt[o] = true
		if rf.kind == 16 {
			fe.operandAt[o+1] = true
		}
		target, def := s.labels[rf.label]
		if !def {
			fe.ok = false
			fe.failing = append(fe.failing, rf)
			continue
		}
		if rf.kind == 8 {
			d := int64(target) - int64(rf.insAddr+2)
			if d < -128 || d > 127 {
				fe.ok = false
				fe.failing = append(fe.failing, rf)
				continue
			}
			fe.code[o] = byte(int8(d))
		} else {
			fe.code[o] = byte(target)
			fe.code[o+1] = byte(target >> 8)
		}
	}
	return fe
}

// errorNamesFailing: does the Finalize error mention at least one genuinely failing reference?
func (s *shadow) errorNamesFailing(err error, fe finalizeExpect) bool {
	msg := strings.ToLower(err.Error())
	for _, rf := range fe.failing {
		if strings.Contains(msg, "'"+strings.ToLower(rf.label)+"'") || strings.Contains(msg, "\""+strings.ToLower(rf.label)+"\"") ||
			containsWord(msg, strings.ToLower(rf.label)) {
			return true
		}
		if target, ok := s.labels[rf.label]; ok {
			for _, a := range []uint32{rf.insAddr, rf.insAddr + 1, rf.insAddr + 2, target} {
				for _, f := range []string{"%x", "%06x", "%04x"} {
					h := fmt.Sprintf(f, a)
					if containsHex(msg, h) {
						return true
					}
				}
			}
		}
	}
	return false
}

func isWordChar(c byte) bool {
	return c == '_' || (c >= '0' && c <= '9') || (c >= 'a' && c <= 'z') || (c >= 'A' && c <= 'Z')
}

func containsWord(msg, w string) bool {
	for i := 0; ; {
		j := strings.Index(msg[i:], w)
		if j < 0 {
			return false
		}
		j += i
		before := j == 0 || !isWordChar(msg[j-1])
		after := j+len(w) == len(msg) || !isWordChar(msg[j+len(w)])
		if before && after {
			return true
		}
		i = j + 1
	}
}

// containsHex: h occurs in msg as a whole hex number (optionally prefixed by 0x / $ / zeros)
func containsHex(msg, h string) bool {
	isHex := func(c byte) bool { return (c >= '0' && c <= '9') || (c >= 'a' && c <= 'f') }
	for i := 0; ; {
		j := strings.Index(msg[i:], h)
		if j < 0 {
			return false
		}
		j += i
		k := j
		for k > 0 && msg[k-1] == '0' {
			k--
		}
		before := k == 0 || !isHex(msg[k-1]) || (msg[k-1] == 'x' || msg[k-1] == '$')
		if k > 0 && msg[k-1] == 'x' {
			before = true
		}
		after := j+len(h) == len(msg) || !isHex(msg[j+len(h)])
		if before && after {
			return true
		}
		i = j + 1
	}
}

// ---------------------------------------------------------------- history generator

type histOpts struct {
	maxCalls   int
	listing    bool
	dataBlocks bool // long data blocks at 16-byte boundaries (C15)
	withRefs   bool
	withDup    bool // sometimes attempt a duplicate label
	straight   bool // C07: no transfers, no PLP/RTI/STP, no labels
	rebase     bool // C19 only: SetBase may be called again in mid-stream
	defineAll  bool // labels still undefined at the end are defined there
}

var safeAlphabet = "abcdefghijklmnopqrstuvwxyzABCDEFGHIJKLMNOPQRSTUVWXYZ123456789 _-+*=.,:()[]<>!?#%&/"

// wideRunes: text is UTF-8; some of these have a low byte that means something in ASCII
// (U+010A -> 0x0A newline, U+013B -> ';', U+0124 -> '$', U+0130 -> '0', U+2020 -> ' ')
var wideRunes = []rune("éüñ→日本語ĊĻĤİ†Ωж𝄞")

func genText(g *vf.Rng, n int) string {
	b := make([]byte, 0, n+8)
	wide := g.Intn(4) == 0
	for len(b) < n {
		if wide && g.Intn(5) == 0 {
			b = append(b, string(wideRunes[g.Intn(len(wideRunes))])...)
			continue
		}
		b = append(b, safeAlphabet[g.Intn(len(safeAlphabet))])
	}
	return string(b)
}

func genBase(g *vf.Rng, roomNeeded int) (uint32, string, bool) {
	switch g.Intn(7) {
	case 0:
		return 0, "unset", false
	case 1:
		return 0x000000, "000000", true
	case 2:
		return 0x008000, "008000", true
	case 3:
		return 0x7E1F00, "7e1f00", true
	case 4:
		return 0xFF8000, "ff8000", true
	case 5: // as high in the bank as the program allows
		off := 0x10000 - roomNeeded - g.Intn(64)
		if off < 0 {
			off = 0
		}
		return uint32(g.Intn(256))<<16 | uint32(off), "bank-top", true
	}
	off := g.Intn(0x10000 - roomNeeded)
	return uint32(g.Intn(256))<<16 | uint32(off), "random", true
}

type histGen struct {
	g      *vf.Rng
	o      histOpts
	sh     *shadow // running shadow to know flags / labels
	calls  []hcall
	nlabel int
	used   map[string]bool
	// operand of the previous generated instruction
	lastArg uint32
	// classes of distances deliberately produced
	dist map[string]bool
}

func (h *histGen) add(c hcall) {
	if !h.sh.legal(c) {
		return
	}
	h.calls = append(h.calls, c)
	h.sh.apply(c)
}

func (h *histGen) newLabel() string {
	h.nlabel++
	names := []string{"loop", "done", "L", "skip_", "lbl", "x"}
	n := fmt.Sprintf("%s%d", names[h.g.Intn(len(names))], h.nlabel)
	// names are the caller's: prefixes of each other, differing only in case, numeric, very long,
	// mnemonic-like, with dots and at-signs
	switch h.g.Intn(13) {
	case 0:
		n = fmt.Sprintf("%d", h.nlabel)
	case 1:
		n = fmt.Sprintf("LOOP%d", h.nlabel) // next to loop<k>
	case 2:
		n = fmt.Sprintf("x%d0", h.nlabel) // x1 is a prefix of x10
	case 3:
		n = fmt.Sprintf("lda.%d@%s", h.nlabel, strings.Repeat("long_", h.g.Intn(60)))
	case 4:
		n = fmt.Sprintf(".%d", h.nlabel)
	case 7:
		// pairs of different names that popular string hashes cannot tell apart (32-bit FNV-1a and FNV-1,
		// Java's s[i]*31^k, CRC-32): a table keyed by a hash of the name must still keep them apart
		pairs := [][2]string{{"costarring", "liquid"}, {"declinate", "macallums"}, {"altarage", "zinke"}, {"altarages", "zinkes"},
			{"Aa", "BB"}, {"AaAa", "BBBB"}, {"AaBB", "BBAa"}, {"plumless", "buckeroo"}, {"codding", "gnu"}, {"exhibiters", "schlager"}}
		pr := pairs[h.g.Intn(len(pairs))]
		n = pr[0]
		if h.used != nil && h.used[n] {
			n = pr[1]
		}
	case 6:
		n = fmt.Sprintf("boucle_%cé%d", wideRunes[h.g.Intn(len(wideRunes))], h.nlabel) // UTF-8 names
	case 9:
		if ss := srcStrings(); len(ss) > 0 { // words the library's own source knows
			if w := ss[h.g.Intn(len(ss))]; !strings.HasPrefix(w, " ") && !strings.HasPrefix(w, "!!") && !strings.HasPrefix(w, "base $") && !strings.ContainsAny(w, "\n\t") {
				n = w // (a name that starts like another kind of listing line cannot be told from one when the listing is read back)
			}
		}
	case 8:
		// names that mean something to a formatter or a parser: format verbs, quotes, separators, blanks,
		// the empty name
		n = []string{"%d", "%s", "%!", "%v%v", "100%", "%[2]d", "a b", "a\tb", "\"q\"", "a;b", "a:b", "a,b", "$1234", "#1", "(x)", "", " ", "a\x00b", "\\n"}[h.g.Intn(19)]
	case 5:
		// names other assemblers give a meaning to: anonymous labels, local labels, current-address symbols
		n = []string{"+", "-", "++", "--", "+-", "*", "@", "@@", "$", ".", "1f", "1b", "_"}[h.g.Intn(13)]
	}
	if h.used == nil {
		h.used = map[string]bool{}
	}
	for h.used[n] {
		n += "_"
	}
	h.used[n] = true
	return n
}

// one random non-label instruction that is legal under the current flags; maxSize limits its length.
func (h *histGen) randIns(maxSize int) (hcall, bool) {
	g := h.g
	for try := 0; try < 40; try++ {
		m := emMethods[g.Intn(len(emMethods))]
		if m.Arg == aLabel8 || m.Arg == aLabel16 {
			continue
		}
		if h.o.straight && m.Transfer {
			continue
		}
		if m.size() > maxSize {
			continue
		}
		if !guardOKFlags(m.Guard, h.sh.flags) {
			if g.Intn(3) == 0 && maxSize >= m.size()+2 {
				// make it legal with a REP/SEP first (caller re-tries afterwards)
				bit := uint32(0x20)
				if m.Guard == gX8 || m.Guard == gX16 {
					bit = 0x10
				}
				if m.Guard == gM8 || m.Guard == gX8 {
					return hcall{Op: "ins", M: emByName["SEP"], Arg: bit | uint32(g.Intn(4))}, true
				}
				return hcall{Op: "ins", M: emByName["REP"], Arg: bit | uint32(g.Intn(4))}, true
			}
			continue
		}
		arg := g.U32()
		switch g.Intn(7) {
		case 0:
			arg = 0
		case 1:
			arg = 0xFFFFFFFF
		case 2:
			arg = 0x00800080
		case 3:
			arg &= 0xFF // an address in page zero, a small constant
		case 4:
			arg = h.lastArg // the same operand as the previous instruction
		case 5:
			// the address of a label defined so far (callers write JSR_abs(uint16(addr)) by hand), or of
			// the instruction itself
			arg = h.sh.addr
			if n := len(h.sh.labels); n > 0 {
				k := g.Intn(n)
				names := make([]string, 0, n)
				for nm := range h.sh.labels {
					names = append(names, nm)
				}
				sort.Strings(names)
				arg = h.sh.labels[names[k]]
			}
		}
		h.lastArg = arg
		switch m.Arg {
		case aU8, aI8, aFlags:
			arg &= 0xFF
		case aU16, aLH, aBanks:
			arg &= 0xFFFF
		case aNone:
			arg = 0
		default:
			arg &= 0xFFFFFF
		}
		return hcall{Op: "ins", M: m, Arg: arg}, true
	}
	return hcall{}, false
}

// pad emits exactly n bytes of instructions / data.
func (h *histGen) pad(n int) {
	for n > 0 {
		if h.g.Intn(5) == 0 || n > 60 {
			k := 1 + h.g.Intn(min(n, 40))
			h.add(hcall{Op: "data", Data: h.g.Bytes(k)})
			n -= k
			continue
		}
		before := len(h.sh.code)
		if c, ok := h.randIns(n); ok {
			h.add(c)
		} else {
			h.add(hcall{Op: "ins", M: emByName["NOP"]})
		}
		n -= len(h.sh.code) - before
	}
}

var branchMethods = []string{"BNE", "BEQ", "BPL", "BMI", "BCC", "BCS", "BRA"}

func (h *histGen) branch(label string) {
	h.add(hcall{Op: "ins", M: emByName[branchMethods[h.g.Intn(len(branchMethods))]], S: label})
}

// idiomFollowUps: what real code does right after loading a register - move the value somewhere else.
var idiomFollowUps = []string{"TCD", "TCD", "TCD", "TCD", "TCS", "TCS", "TCS", "TAX", "TAX", "TAX", "TAY", "TAY", "TAY", "TCD", "TCS", "TAX", "TAY", "TXA", "TYA", "XBA", "PHA", "PHX", "PHY", "PHD", "PLD", "PHB", "PLB", "PHK", "TXS", "TSX", "TXY", "TYX", "TDC", "TSC", "PHP", "PLP", "CLC", "SEC", "XCE"}

// addIns adds a generated instruction and, after a register load, often one of the usual follow-ups
// (load-then-transfer idioms such as LDA #0 / TCD, LDX #$1FF / TXS, LDA #$80 / PHA / PLB).
func (h *histGen) addIns(c hcall) {
	h.add(c)
	if c.Op != "ins" || h.o.straight || !strings.HasPrefix(c.M.Name, "LD") || h.g.Intn(2) != 0 {
		return
	}
	for n := 1 + h.g.Intn(2); n > 0; n-- {
		if m, ok := emByName[idiomFollowUps[h.g.Intn(len(idiomFollowUps))]]; ok && m != nil {
			h.add(hcall{Op: "ins", M: m})
		}
	}
}

func genHistory(g *vf.Rng, o histOpts) (calls []hcall, base string, dist map[string]bool) {
	h := &histGen{g: g, o: o, sh: newShadow(o.listing), dist: map[string]bool{}}
	budget := 1 + g.Intn(o.maxCalls)
	if g.Intn(4) == 0 {
		budget = 1 + g.Intn(8)
	}
	// base (at most once, before the first emission)
	b, bname, set := genBase(g, 6000)
	base = bname
	// initial width assumption
	if g.Intn(2) == 0 {
		h.add(hcall{Op: "assumesep", Arg: uint32(g.Intn(4)) << 4})
	}
	if set {
		if g.Intn(5) == 0 && o.listing {
			h.add(hcall{Op: "comment", S: genText(g, g.Intn(20))})
			// comment before SetBase does not emit; still "before the first emission"
		}
		if g.Intn(6) == 0 && !o.straight {
			// so is a label: defined at the address the emitter starts from, before the base is set
			h.add(hcall{Op: "label", S: h.newLabel()})
			h.dist["label-before-setbase"] = true
		}
		h.add(hcall{Op: "setbase", Arg: b})
	}
	var undefined []string
	for len(h.calls) < budget && len(h.sh.code) < 5000 {
		switch k := g.Intn(20); {
		case k < 8:
			if c, ok := h.randIns(4); ok {
				h.addIns(c)
			}
		case k == 8:
			n := g.Intn(12)
			if o.dataBlocks {
				n = []int{0, 1, 15, 16, 17, 31, 32, 33, 48, 255, 256, 1000, g.Intn(70)}[g.Intn(13)]
			}
			blk := g.Bytes(n)
			h.add(hcall{Op: "data", Data: blk})
			if g.Intn(4) == 0 {
				// ... followed (at once, or after something else) by a block of the same length that common
				// checksums cannot tell from it: tables keyed by a digest of the data must keep them apart
				if n > 16 && g.Bool() {
					blk = g.Bytes(16) // (listing rows are 16 bytes)
					h.add(hcall{Op: "data", Data: blk})
				}
				if twin, _, ok := collidingBlock(g, blk); ok {
					if g.Bool() {
						if c, ok := h.randIns(4); ok {
							h.add(c)
						}
					}
					h.add(hcall{Op: "data", Data: twin})
					h.dist["colliding-data-blocks"] = true
				}
			}
		case k == 9 && o.listing:
			n := g.Intn(30)
			if g.Intn(10) == 0 {
				n = 100 + g.Intn(400)
			}
			if g.Intn(40) == 0 {
				n = []int{4000, 4090, 4096, 4097, 5000, 8192, 20000}[g.Intn(7)] // a licence text, a pasted table
			}
			h.add(hcall{Op: "comment", S: genText(g, n)})
		case k == 10 && !o.straight:
			h.add(hcall{Op: "label", S: h.newLabel()})
		case k == 18 && o.rebase:
			h.add(hcall{Op: "setbase", Arg: uint32(g.Intn(256))<<16 | uint32(g.Intn(0xF000))})
		case k == 11 && !o.straight && g.Intn(3) == 0:
			// the caller tells the assembler about a width it knows (e.g. after a call): moves the tracker, emits nothing
			h.add(hcall{Op: []string{"assumerep", "assumesep"}[g.Intn(2)], Arg: uint32(1+g.Intn(3)) << 4})
		case k == 11 && o.straight:
			h.add(hcall{Op: []string{"assumerep", "assumesep"}[g.Intn(2)], Arg: 0}) // refined by C07 itself
		case k >= 12 && k <= 16 && o.withRefs:
			// distance-targeted reference
			switch g.Intn(7) {
			case 6: // a "hot" label: many references to it, interleaved with first references to other labels
				hot := h.newLabel()
				if g.Bool() {
					h.add(hcall{Op: "label", S: hot})
				} else {
					undefined = append(undefined, hot)
				}
				nref := 6 + g.Intn(14)
				if g.Intn(6) == 0 {
					nref = 30 + g.Intn(60)
				}
				for i := 0; i < nref; i++ {
					if g.Intn(3) == 0 {
						h.add(hcall{Op: "ins", M: emByName["JMP_abs"], S: hot})
					} else {
						h.branch(hot)
					}
					switch g.Intn(4) {
					case 0: // another label gets its first reference in between
						o := h.newLabel()
						h.branch(o)
						undefined = append(undefined, o)
					case 1:
						h.pad(g.Intn(6))
					}
				}
				h.dist["hot-label"] = true
			case 0: // backward branch with chosen distance
				p := []int{0, 1, 125, 126, 127, g.Intn(140)}[g.Intn(6)]
				l := h.newLabel()
				h.add(hcall{Op: "label", S: l})
				h.pad(p)
				h.branch(l)
				h.dist[fmt.Sprintf("back%d", -(p+2))] = true
			case 1: // forward branch with chosen distance
				p := []int{0, 1, 126, 127, 128, g.Intn(140)}[g.Intn(6)]
				l := h.newLabel()
				h.branch(l)
				h.pad(p)
				h.add(hcall{Op: "label", S: l})
				h.dist[fmt.Sprintf("fwd%d", p)] = true
			case 2: // reference to a label that may never be defined
				l := h.newLabel()
				if n := len(h.sh.labels); n > 0 && g.Intn(3) == 0 {
					// ... whose name is built from a defined one: loop+2, loop-1, loop$10, LOOP, "loop "
					names := make([]string, 0, n)
					for nm := range h.sh.labels {
						names = append(names, nm)
					}
					sort.Strings(names)
					base := names[g.Intn(n)]
					l = base + []string{"+2", "-1", "+$10", "+0", ".", "2", "_"}[g.Intn(7)]
					if g.Intn(4) == 0 {
						l = strings.ToUpper(base)
					}
					for h.used[l] {
						l += "+1"
					}
					h.used[l] = true
				}
				if g.Intn(2) == 0 {
					h.branch(l)
				} else {
					h.add(hcall{Op: "ins", M: emByName["JMP_abs"], S: l})
				}
				undefined = append(undefined, l)
			case 3: // absolute jump, forward or backward
				l := h.newLabel()
				if g.Bool() {
					h.add(hcall{Op: "label", S: l})
					h.pad(g.Intn(300))
					h.add(hcall{Op: "ins", M: emByName["JMP_abs"], S: l})
				} else {
					h.add(hcall{Op: "ins", M: emByName["JMP_abs"], S: l})
					h.pad(g.Intn(300))
					h.add(hcall{Op: "label", S: l})
				}
			case 4: // many references to one existing label
				if len(h.sh.labels) > 0 {
					names := make([]string, 0, len(h.sh.labels))
					for n := range h.sh.labels {
						names = append(names, n)
					}
					sort.Strings(names)
					l := names[g.Intn(len(names))]
					for i := 0; i < 1+g.Intn(4); i++ {
						if g.Intn(3) == 0 {
							h.add(hcall{Op: "ins", M: emByName["JMP_abs"], S: l})
						} else {
							h.branch(l)
						}
					}
				}
			default: // define one of the so-far undefined labels
				if len(undefined) > 0 {
					i := g.Intn(len(undefined))
					h.add(hcall{Op: "label", S: undefined[i]})
					undefined = append(undefined[:i], undefined[i+1:]...)
				}
			}
		case k == 17 && o.withDup && len(h.sh.labels) > 0:
			// duplicate label attempt is recorded as a call; the monitors expect a refusal
			names := make([]string, 0, len(h.sh.labels))
			for n := range h.sh.labels {
				names = append(names, n)
			}
			sort.Strings(names)
			h.calls = append(h.calls, hcall{Op: "label", S: names[g.Intn(len(names))]})
		default:
			if c, ok := h.randIns(4); ok {
				h.addIns(c)
			}
		}
	}
	if o.defineAll {
		for _, l := range undefined {
			h.add(hcall{Op: "label", S: l})
			if g.Bool() {
				h.pad(g.Intn(4))
			}
		}
	}
	return h.calls, base, h.dist
}

// flushToBankEnd makes the program end exactly at the end of its bank: a final label in front of a
// final RTS (so the label sits on the bank's last byte, $xxFFFF), referenced by a jump and a branch,
// and the base chosen accordingly. Returns nil if the history does not allow it.
func flushToBankEnd(g *vf.Rng, calls []hcall, listing bool) []hcall {
	for _, c := range calls {
		if c.Op == "label" && c.S == "the_end" {
			return nil
		}
	}
	out := append([]hcall(nil), calls...)
	out = append(out, hcall{Op: "ins", M: emByName["JMP_abs"], S: "the_end"})
	if g.Bool() {
		out = append(out, hcall{Op: "ins", M: emByName["BRA"], S: "the_end"})
	}
	out = append(out, hcall{Op: "label", S: "the_end"}, hcall{Op: "ins", M: emByName["RTS"]})
	sh := newShadow(listing)
	for _, c := range out {
		if sh.legal(c) {
			sh.apply(c)
		}
	}
	size := len(sh.code)
	if size >= 0x10000 {
		return nil
	}
	base := uint32(g.Intn(256))<<16 | uint32(0x10000-size)
	for i := range out {
		if out[i].Op == "setbase" {
			out[i].Arg = base
			return out
		}
	}
	return append([]hcall{{Op: "setbase", Arg: base}}, out...)
}

// genFarHistory builds a short program that spans almost a whole bank: a
// label reference whose target is tens of thousands of bytes away (around the
// +-32 KiB and +-64 KiB marks), with the base offset small enough to fit.
// genDenseRefs: one label with short branches packed tightly on both sides of it - as many as fit in
// range, one fewer, one more - and a few more references elsewhere: the number of references to a
// label is an input like any other (64 two-byte branches fill the reach behind a label exactly).
func genDenseRefs(g *vf.Rng, listing bool) (calls []hcall, base string, dist map[string]bool) {
	h := &histGen{g: g, o: histOpts{listing: listing, withRefs: true}, sh: newShadow(listing), dist: map[string]bool{}}
	base = "dense-unset"
	if g.Bool() {
		h.add(hcall{Op: "setbase", Arg: uint32(g.Intn(256))<<16 | uint32(g.Intn(0x8000))})
		base = "dense-set"
	}
	l := h.newLabel()
	before := []int{0, 1, 7, 8, 9, 63, 64, 64, 64, 65, 127}[g.Intn(11)]
	after := []int{0, 1, 7, 8, 9, 62, 63, 64, 64, 64, 65, 128}[g.Intn(12)]
	for i := 0; i < before; i++ {
		h.branch(l)
	}
	h.add(hcall{Op: "label", S: l})
	for i := 0; i < after; i++ {
		h.branch(l)
	}
	// ... and a few more, right behind the packed ones or a little further on
	for n := g.Intn(4); n > 0; n-- {
		if g.Bool() {
			h.add(hcall{Op: "data", Data: g.Bytes(g.Intn(6))})
		}
		if g.Intn(3) == 0 {
			h.add(hcall{Op: "ins", M: emByName["JMP_abs"], S: l})
		} else {
			h.branch(l)
		}
	}
	h.dist[fmt.Sprintf("dense-%d-%d", before, after)] = true
	return h.calls, base, h.dist
}

func genFarHistory(g *vf.Rng, listing bool) (calls []hcall, base string, dist map[string]bool) {
	h := &histGen{g: g, o: histOpts{listing: listing, withRefs: true}, sh: newShadow(listing), dist: map[string]bool{}}
	off := []int{-1, 0x0000, 0x0010, 0x007E, 0x0100}[g.Intn(5)]
	base = "far-unset"
	if off >= 0 {
		h.add(hcall{Op: "setbase", Arg: uint32(g.Intn(256))<<16 | uint32(off)})
		base = fmt.Sprintf("far-%04x", off)
	} else {
		off = 0
	}
	room := 0x10000 - off
	for i := 0; i < g.Intn(4); i++ {
		if c, ok := h.randIns(4); ok {
			h.add(c)
		}
	}
	used := len(h.sh.code)
	var gap int
	switch g.Intn(4) {
	case 0:
		gap = 0x7F70 + g.Intn(0x120) // around 32 KiB
	case 1:
		gap = 0xFF70 + g.Intn(0x8E) // 64 KiB minus a short branch distance
	case 2:
		gap = 0xFE00 + g.Intn(0x1F0)
	default:
		gap = 0x100 + g.Intn(0xFD00)
	}
	if gap > room-used-16 {
		gap = room - used - 16 - g.Intn(8)
	}
	l := h.newLabel()
	kind := g.Intn(4)
	switch kind {
	case 0: // forward branch across the gap
		h.branch(l)
		h.add(hcall{Op: "data", Data: g.Bytes(gap)})
		h.add(hcall{Op: "label", S: l})
		h.dist[fmt.Sprintf("farfwd%x", gap>>12)] = true
	case 1: // backward branch across the gap
		h.add(hcall{Op: "label", S: l})
		h.add(hcall{Op: "data", Data: g.Bytes(gap)})
		h.branch(l)
		h.dist[fmt.Sprintf("farback%x", gap>>12)] = true
	case 2: // absolute jump across the gap (always resolvable)
		h.add(hcall{Op: "ins", M: emByName["JMP_abs"], S: l})
		h.add(hcall{Op: "data", Data: g.Bytes(gap)})
		h.add(hcall{Op: "label", S: l})
		h.dist["farjmp"] = true
	default: // one short and one far reference to the same label
		h.add(hcall{Op: "label", S: l})
		h.pad(g.Intn(100))
		h.branch(l)
		h.add(hcall{Op: "data", Data: g.Bytes(gap)})
		h.branch(l)
		h.dist[fmt.Sprintf("farback%x", gap>>12)] = true
	}
	for i := 0; i < g.Intn(3); i++ {
		h.add(hcall{Op: "ins", M: emByName["NOP"]})
	}
	return h.calls, base, h.dist
}

// ---------------------------------------------------------------- observation helpers

type emObs struct {
	Bytes  []byte
	Len    int
	PC     uint32
	Base   uint32
	Flags  byte
	Labels map[string]string
}

func observe(e *asm.Emitter, names []string) emObs {
	o := emObs{Bytes: append([]byte(nil), e.Bytes()...), Len: e.Len(), PC: e.PC(), Base: e.GetBase(), Flags: byte(e.Flags()), Labels: map[string]string{}}
	for _, n := range names {
		v, ok := e.GetLabel(n)
		o.Labels[n] = fmt.Sprintf("%06x/%v", v, ok)
	}
	// a caller may ask about names the program never mentions ("is the shared epilogue emitted yet?")
	for _, n := range []string{"never_mentioned", "", "epilogue"} {
		v, ok := e.GetLabel(n)
		o.Labels["?"+n] = fmt.Sprintf("%06x/%v", v, ok)
	}
	return o
}

func (a emObs) diff(b emObs) string {
	switch {
	case a.Len != b.Len:
		return fmt.Sprintf("Len %d vs %d", a.Len, b.Len)
	case a.PC != b.PC:
		return fmt.Sprintf("PC $%06x vs $%06x", a.PC, b.PC)
	case a.Base != b.Base:
		return fmt.Sprintf("GetBase $%06x vs $%06x", a.Base, b.Base)
	case a.Flags != b.Flags:
		return fmt.Sprintf("Flags %02x vs %02x", a.Flags, b.Flags)
	case string(a.Bytes) != string(b.Bytes):
		return fmt.Sprintf("Bytes differ at %d", firstDiff(a.Bytes, b.Bytes))
	}
	for k, v := range a.Labels {
		if b.Labels[k] != v {
			return fmt.Sprintf("GetLabel(%q) %s vs %s", k, v, b.Labels[k])
		}
	}
	return ""
}

func labelNames(calls []hcall) []string {
	set := map[string]bool{}
	for _, c := range calls {
		if c.Op == "label" || (c.Op == "ins" && (c.M.Arg == aLabel8 || c.M.Arg == aLabel16)) {
			set[c.S] = true
		}
	}
	out := make([]string, 0, len(set))
	for k := range set {
		out = append(out, k)
	}
	sort.Strings(out)
	return out
}

type safeWriter struct{ sb strings.Builder }

func (w *safeWriter) Write(p []byte) (int, error) { return w.sb.Write(p) }

func listText(e *asm.Emitter) (out string, err error, pan interface{}) {
	defer func() { pan = recover() }()
	var w safeWriter
	err = e.WriteTextTo(&w)
	return w.sb.String(), err, nil
}

func listHex(e *asm.Emitter) (out string, err error, pan interface{}) {
	defer func() { pan = recover() }()
	var w safeWriter
	err = e.WriteHexTo(&w)
	return w.sb.String(), err, nil
}
