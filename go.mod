module verif

go 1.21

require github.com/alttpo/snes v0.0.0

replace github.com/alttpo/snes => /repo
