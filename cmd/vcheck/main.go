// vcheck dispatches one property monitor: vcheck <Cxx> quick|thorough  |  vcheck <Cxx> --replay <file>
package main

import (
	"encoding/json"
	"fmt"
	"os"
	"runtime/debug"
	"strconv"
	"time"

	"verif/internal/vf"
	"verif/props"
)

func main() {
	if len(os.Args) < 3 {
		fmt.Println("usage: vcheck <Cxx> quick|thorough | vcheck <Cxx> --replay <file>")
		os.Exit(2)
	}
	id := os.Args[1]
	fn, ok := props.Registry[id]
	if !ok {
		fmt.Printf("INCONCLUSIVE property=%s no such monitor\n", id)
		os.Exit(2)
	}
	if root := os.Getenv("VERIF_ROOT"); root != "" {
		vf.Root = root
	}
	if out := os.Getenv("VERIF_OUT"); out != "" { // scratch runs (mutants, seeded changes) keep /verif/evidence untouched
		vf.Out = out
	}
	seed := uint64(1)
	if s := os.Getenv("VERIF_SEED"); s != "" {
		if v, err := strconv.ParseInt(s, 10, 64); err == nil {
			seed = uint64(v)
		}
	}
	tier := os.Args[2]
	only := ""
	if tier == "--replay" {
		if len(os.Args) < 4 {
			fmt.Println("usage: vcheck <Cxx> --replay <file>")
			os.Exit(2)
		}
		b, err := os.ReadFile(os.Args[3])
		if err != nil {
			fmt.Println("INCONCLUSIVE cannot read replay:", err)
			os.Exit(2)
		}
		var rec struct {
			Tier  string `json:"tier"`
			Seed  uint64 `json:"seed"`
			Phase string `json:"phase"`
			Msg   string `json:"msg"`
		}
		if err := json.Unmarshal(b, &rec); err != nil {
			fmt.Println("INCONCLUSIVE bad replay file:", err)
			os.Exit(2)
		}
		tier, seed, only = rec.Tier, rec.Seed, rec.Phase
		fmt.Printf("replaying %s phase=%q tier=%s seed=%d\n  recorded: %s\n", id, only, tier, seed, rec.Msg)
	}
	if tier != "quick" && tier != "thorough" {
		if t := os.Getenv("VERIF_TIER"); t == "quick" || t == "thorough" {
			tier = t
		} else {
			tier = "quick"
		}
	}
	r := vf.New(id, tier, seed)
	r.OnlyPhase = only

	// generous wall-clock watchdog: its firing is inconclusive, never a verdict
	limit := 40 * time.Minute
	if tier == "thorough" {
		limit = 6 * time.Hour
	}
	go func() {
		time.Sleep(limit)
		fmt.Printf("INCONCLUSIVE property=%s watchdog fired after %v\n", id, limit)
		os.Exit(2)
	}()

	code := func() (code int) {
		defer func() {
			if e := recover(); e != nil {
				fmt.Printf("INCONCLUSIVE property=%s harness panic: %v\n%s\n", id, e, debug.Stack())
				code = 2
			}
		}()
		if os.Getenv("VERIF_ERRORS_FIRST") != "" {
			props.ErrorsFirst() // (child processes only: the library's error paths are its first use)
		}
		fn(r)
		props.OtherTarget(r)
		props.ThirdTarget(r)
	props.OtherMachines(r)
	props.ManyColdStarts(r)
		props.ConfigChildren(r)
		props.ErrorsFirstChild(r)
		return r.Finish()
	}()
	os.Exit(code)
}
