#!/bin/bash
# usage: tools/try_seed.sh <patch.diff> [tier] [Cxx ...]
# applies a seeded change to /repo's working tree, runs the baseline suite and the given checks
# (default: all, quick), prints the verdicts, and restores /repo.
patch=$1; tier=${2:-quick}; shift; shift
props=${@:-C01 C02 C03 C04 C05 C06 C07 C08 C09 C10 C11 C12 C13 C14 C15 C16 C17 C18 C19}
cd "$(dirname "$0")/.."
if [ -n "$(git -C /repo status --porcelain)" ]; then echo "refusing: /repo is dirty"; exit 2; fi
git -C /repo apply "$patch" || { echo "patch does not apply"; exit 2; }
trap 'git -C /repo checkout -- . ; git -C /repo clean -fdq' EXIT
echo "== baseline with the change:"; python3 tools/baseline.py | head -5
for p in $props; do
  out=$(./check $p $tier 2>&1); rc=$?
  echo "$p rc=$rc $(echo "$out" | grep -c '^VIOLATION') violation lines | $(echo "$out" | grep -m1 'violation\[' | cut -c1-220)"
done
git -C /verif checkout -- evidence 2>/dev/null
