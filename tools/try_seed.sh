#!/bin/bash
# usage: tools/try_seed.sh <patch.diff> [tier] [Cxx ...]
# applies a seeded change to a scratch worktree of /repo's HEAD (outside /repo and /verif), runs the
# baseline suite and the given checks (default: all, quick) against it, prints the verdicts, removes it.
patch=$(readlink -f "$1"); tier=${2:-quick}; shift; shift
props=${@:-C01 C02 C03 C04 C05 C06 C07 C08 C09 C10 C11 C12 C13 C14 C15 C16 C17 C18 C19}
cd "$(dirname "$0")/.."
wt=/tmp/vtry.$$/wt; mkdir -p /tmp/vtry.$$/out
git -C /repo worktree add -q --detach $wt HEAD || exit 2
trap 'git -C /repo worktree remove --force '$wt'; rm -rf /tmp/vtry.'$$'; git -C /repo worktree prune' EXIT
git -C $wt apply "$patch" || { echo "patch does not apply"; exit 2; }
echo "== baseline with the change:"; BASELINE_REPO=$wt python3 tools/baseline.py | head -5
for p in $props; do
  out=$(VERIF_REPO=$wt VERIF_OUT=/tmp/vtry.$$/out timeout ${TRY_TIMEOUT:-900} ./check $p $tier 2>&1); rc=$?
  echo "$p rc=$rc $(echo "$out" | grep -c '^VIOLATION') violation lines | $(echo "$out" | grep -m1 'violation\[' | cut -c1-220)"
done
