#!/usr/bin/env python3
"""Prepares a round of independently seeded changes: one scratch worktree and one prompt per property.

usage: tools/mkprompts.py <round-dir> [Cxx ...]      e.g. tools/mkprompts.py /tmp/seed6

For each property creates <round-dir>/<Cxx> (git worktree of /repo HEAD), <round-dir>/out/<Cxx>/PROMPT.txt.
The prompt holds only the property's text, the list of changes already filed for it (name + what each needs
to manifest) and instructions; nothing about how /verif checks anything beyond a generic description.
"""
import json, os, subprocess, sys, glob

rd = sys.argv[1]
want = sys.argv[2:]
props = [json.loads(l) for l in open("/verif/properties.jsonl")]
os.makedirs(rd + "/out", exist_ok=True)
subprocess.run("git -C /repo worktree prune", shell=True)

filed = {}
for m in sorted(glob.glob("/verif/seeded/*/meta.json")):
    d = json.load(open(m))
    filed.setdefault(d["breaks_property"], []).append((os.path.basename(os.path.dirname(m)), d.get("needs_to_manifest", "")))

T = """You are helping to evaluate a verification effort by playing the role of a careless-but-plausible maintainer. You have your own scratch git worktree of a small Go library (module github.com/alttpo/snes: two near-duplicate 65c816 CPU interpreters, a 65816 machine-code emitter `asm`, cartridge address mappers, ROM header parsing, a colour helper) at:

    {wt}

Work ONLY inside that directory and inside the output directory {out}. Do not read or write /verif, /repo, or any other directory under /tmp/seed*. Every shell command that runs go must start with:
    export GOFLAGS=-mod=mod GOPROXY=off GOSUMDB=off GOTOOLCHAIN=local
(there is no network). Wrap every command that could run long or hang in `timeout 600`.

Here is a semantic property that the library is supposed to satisfy:

-----
Property {id}: {title}

Statement: {statement}

Quantifier: {quantifier}

-----

Your task: produce ONE source change to the library (non-test .go files in the worktree) that BREAKS this property, while
  (1) the library still compiles (`go build ./...` must pass),
  (2) the existing test suite still passes exactly as before: run `go test -vet=off -count=1 ./... 2>&1 | tail -30` before and after. NOTE: the package emulator/cpu65c816 has tests (TestCPU_Step/...) that ALREADY fail because ROM files are missing; those pre-existing failures are expected and do not count. Every test that passed before must still pass.
  (3) the change looks like something a real maintainer could plausibly commit (a refactor, an "optimisation", a small feature, a boundary tweak, a cache, a mis-merged fix) - not a sabotage comment or an obviously dead `if x == 12345` trap,
  (4) the breakage needs something SPECIFIC to manifest - a particular multi-step sequence of operations, an unusual input or boundary value, a particular interleaving of goroutines, two cooperating code sites that each look fine alone, a particular processor state, etc. Do NOT produce a change that ordinary use or a casual smoke test would expose at once. Prefer subtle over blatant, but it must be a genuine violation of the property as stated (not of something the property does not say), for inputs inside the property's quantifier, reachable through the public API.

IMPORTANT: other contributors have already produced the changes listed below for this property. Yours must be of a clearly DIFFERENT kind from all of them - a different code site, a different mechanism and a different trigger. Assume that a strong automated runtime checker already exists and catches every one of the listed changes: it sweeps inputs exhaustively or randomly against independent oracles, keeps objects alive across calls, interleaves handles, reuses caller buffers, runs things concurrently from a cold start and in different first-use orders, runs objects past 65,536 operations, mixes in other parts of the library and out-of-domain calls before and between the calls it judges, uses callbacks that act on the object, repeats everything in a 32-bit (GOARCH=386) build and under an aggressive garbage collector, copies objects by value and re-wires them to other collaborators, places programs in every kind of memory of the emulated console, takes error paths (failing writers, recovered panics) before the calls it judges, plants well-formed structure in the parts of inputs it does not judge, calls every public method (Finalize, EaDump, Reset, SetFlags, ...) in the middle of its histories, not only at the end, tests the library's default build as well as the build with its `verif` tag, uses the library during package initialisation, lets callbacks call the object's read-only methods, starts counters and bases at the limits of their integer types, chooses payloads and field contents equal to what is already stored, varies the concrete types behind interfaces (bufio.Writer loggers, devices with their own Size()), generates canonical instruction idioms (load-then-transfer) as well as random instructions, compares the order of bus writes within a step, drives more than 2^32 cycles through one call and more than 2^32 calls through one process, maps the bus with the library's own device models, varies file names, label spellings, public fields such as HeaderOffset, the machine's processor count (GOMAXPROCS), uses numeric operands that equal label addresses, devices that look identical, re-observes every level of nested clones, runs a portable probe on a third target (js/wasm), drives access patterns (runs then jumps) instead of single calls, uses slices with spare capacity as targets, label names that collide under common hash functions, UTF-8 text, devices and loggers built by embedding or as function adapters, starts processes with the library's error paths, recurses thousands of frames deep, delivers interrupts between instructions against its model, keeps stepping after STP, reads the library's own source to discover every environment variable and custom build tag and re-runs itself under each configuration it finds, compares the order of bus reads (not only writes) of every step, pre-fills targets and checks the bytes a call should NOT have touched, uses devices that call back into the bus from their own Read/Write, takes snapshots of objects inside their own handlers, walks addresses downward as well as upward across every boundary, defines labels before bases, emits lines of tens of kilobytes, discovers methods that are new to it by reflection and reads their meaning from their names (mnemonic, mode suffix, signature), builds objects from struct literals as well as constructors and places them at odd offsets inside larger structs, uses images of 2 and 4 GiB, runs probe programs that link only one package of the library, confines processes to 1, 3, 5, 6, 7 or 12 processors, writes and reads every hardware-register address ($2000-$5FFF) through the CPUs and through the emulated console before judging anything else, executes every kind of memory-accessing instruction (block moves, pushes, read-modify-write, indirect, indexed across bank ends) against a model of the memory map, passes buffers that are shorter than or overlap what a call works on where that is legal, lets loggers' Reserve/Commit hooks and callbacks act on the machine or detach the logger, calls read-only methods on intermediate objects (clones before Append), and keeps the very first instances created in the process busy while others are judged. Aim for a violation such a checker would STILL be unlikely to run into: think about which dimension of the input space, history or environment a checker built from the list below would still hold constant. It must still be a genuine violation of the property as stated.
{filed}

Deliverables, all written into {out}:
  - patch.diff : output of `git -C {wt} diff` containing only your change to non-test source files (do not commit).
  - a demonstration: either demo_test.go (a Go test file, with a comment at the top saying into which package directory of the repo it must be copied to run, and the exact `go test -run ...` command) or demo/main.go (a small program with its own go.mod using `replace github.com/alttpo/snes => {wt}`), which FAILS (non-zero exit / test failure) with your change applied and PASSES on the unmodified code, within a minute. Verify both yourself: run it with the change, then revert the change with `git diff > {out}/p.diff && git apply -R {out}/p.diff`, run it again, then re-apply with `git apply {out}/p.diff`. Do NOT use `git stash` (the stash is shared between worktrees and other people are working in sibling worktrees).
  - NOTES.md : 10-20 lines: what you changed and why it looks plausible, exactly what is needed for the violation to manifest (inputs / sequence / state / schedule), which dimension you believe a checker would hold constant, and the commands you ran with their results (before/after test-suite summary, demo failing with / passing without the change).

Leave the worktree with your change applied (uncommitted) and with no other modified or untracked files except those needed by your demonstration (put demo files in {out}, not in the worktree, unless a test file must live in a package directory to run - in that case copy it in only temporarily and remove it again). Finish by printing the contents of NOTES.md.
"""

for p in props:
    pid = p["id"]
    if want and pid not in want:
        continue
    wt, out = "%s/%s" % (rd, pid), "%s/out/%s" % (rd, pid)
    os.makedirs(out, exist_ok=True)
    if not os.path.exists(wt):
        subprocess.run("git -C /repo worktree add -q --detach %s HEAD" % wt, shell=True, check=True)
    fl = "\n".join("  - %s: %s" % (n, needs) for n, needs in filed.get(pid, [])) or "  (none yet)"
    open(out + "/PROMPT.txt", "w").write(T.format(wt=wt, out=out, id=pid, title=p["title"], statement=p["statement"], quantifier=p.get("quantifier", ""), filed=fl))
    print(pid, len(filed.get(pid, [])), "filed changes listed")
