#!/bin/bash
# usage: tools/sweep.sh <tier> <seed>...   runs every check at the given seeds; prints non-held results
tier=$1; shift
cd "$(dirname "$0")/.."
# under `vp run --with-repo` check the repository snapshot, so edits to /repo do not disturb the sweep
[ -n "$VP_RUN_REPO" ] && export VERIF_REPO="$VP_RUN_REPO"
bad=0
for seed in "$@"; do
  for p in C01 C02 C03 C04 C05 C06 C07 C08 C09 C10 C11 C12 C13 C14 C15 C16 C17 C18 C19; do
    out=$(VERIF_SEED=$seed ./check $p $tier 2>&1); rc=$?
    line=$(echo "$out" | tail -1)
    echo "seed=$seed rc=$rc $line"
    if [ $rc -ne 0 ]; then bad=1; echo "$out" | grep -v "^KNOWN" | head -20; fi
  done
done
exit $bad
