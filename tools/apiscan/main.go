// apiscan lists the exported functions and methods of the library's packages (one per line:
// "<import path> <Receiver.>Name <signature>") or, with -gen, writes a Go file for package props that
// calls those not in the baseline list (functions with simple parameters) and scribbles over what they
// return: memory handed out by the library that is still the library's own shows up that way.
//
// usage: apiscan <repo dir> <module path>                  > list
//        apiscan -gen <baseline list> <repo dir> <module path> > zz_api_gen.go
package main

import (
	"fmt"
	"go/ast"
	"go/parser"
	"go/token"
	"os"
	"path/filepath"
	"sort"
	"strings"
)

type fn struct {
	pkgPath, pkgName, recv, name string
	params, results             []string // type expressions as written
	recvBasic                   string   // underlying basic type of the receiver's named type, if any
}

func typeStr(e ast.Expr) string {
	switch t := e.(type) {
	case *ast.Ident:
		return t.Name
	case *ast.StarExpr:
		return "*" + typeStr(t.X)
	case *ast.ArrayType:
		if t.Len == nil {
			return "[]" + typeStr(t.Elt)
		}
		return "[N]" + typeStr(t.Elt)
	case *ast.SelectorExpr:
		return typeStr(t.X) + "." + t.Sel.Name
	case *ast.MapType:
		return "map[" + typeStr(t.Key) + "]" + typeStr(t.Value)
	case *ast.Ellipsis:
		return "..." + typeStr(t.Elt)
	case *ast.FuncType:
		return "func"
	case *ast.InterfaceType:
		return "interface"
	}
	return "?"
}

func fields(fl *ast.FieldList) []string {
	var out []string
	if fl == nil {
		return out
	}
	for _, f := range fl.List {
		n := len(f.Names)
		if n == 0 {
			n = 1
		}
		for i := 0; i < n; i++ {
			out = append(out, typeStr(f.Type))
		}
	}
	return out
}

func scan(root, mod string) []fn {
	var out []fn
	filepath.Walk(root, func(p string, info os.FileInfo, err error) error {
		if err != nil || !info.IsDir() || strings.HasPrefix(info.Name(), ".") && p != root {
			return nil
		}
		fset := token.NewFileSet()
		pkgs, err := parser.ParseDir(fset, p, func(fi os.FileInfo) bool { return !strings.HasSuffix(fi.Name(), "_test.go") }, 0)
		if err != nil {
			return nil
		}
		rel, _ := filepath.Rel(root, p)
		ip := mod
		if rel != "." {
			ip = mod + "/" + filepath.ToSlash(rel)
		}
		for name, pkg := range pkgs {
			if name == "main" || strings.HasSuffix(name, "_test") {
				continue
			}
			basic := map[string]string{}
			for _, f := range pkg.Files {
				for _, d := range f.Decls {
					if gd, ok := d.(*ast.GenDecl); ok && gd.Tok == token.TYPE {
						for _, sp := range gd.Specs {
							ts := sp.(*ast.TypeSpec)
							if id, ok := ts.Type.(*ast.Ident); ok {
								basic[ts.Name.Name] = id.Name
							}
						}
					}
				}
			}
			for _, f := range pkg.Files {
				for _, d := range f.Decls {
					fd, ok := d.(*ast.FuncDecl)
					if !ok || !fd.Name.IsExported() {
						continue
					}
					x := fn{pkgPath: ip, pkgName: name, name: fd.Name.Name, params: fields(fd.Type.Params), results: fields(fd.Type.Results)}
					if fd.Recv != nil && len(fd.Recv.List) == 1 {
						x.recv = typeStr(fd.Recv.List[0].Type)
						x.recvBasic = basic[strings.TrimPrefix(x.recv, "*")]
						if !ast.IsExported(strings.TrimPrefix(x.recv, "*")) {
							continue
						}
					}
					out = append(out, x)
				}
			}
		}
		return nil
	})
	sort.Slice(out, func(i, j int) bool { return out[i].key() < out[j].key() })
	return out
}

func (f fn) key() string {
	n := f.name
	if f.recv != "" {
		n = f.recv + "." + n
	}
	return fmt.Sprintf("%s %s (%s) (%s)", f.pkgPath, n, strings.Join(f.params, ","), strings.Join(f.results, ","))
}

var ints = map[string]bool{"uint8": true, "byte": true, "uint16": true, "uint32": true, "uint64": true, "uint": true, "int": true, "int8": true, "int16": true, "int32": true, "int64": true}

func main() {
	if len(os.Args) >= 2 && os.Args[1] != "-gen" {
		for _, f := range scan(os.Args[1], os.Args[2]) {
			fmt.Println(f.key())
		}
		return
	}
	base := map[string]bool{}
	b, _ := os.ReadFile(os.Args[2])
	for _, ln := range strings.Split(string(b), "\n") {
		base[strings.TrimSpace(ln)] = true
	}
	var body strings.Builder
	imports := map[string]string{}
	n := 0
	for _, f := range scan(os.Args[3], os.Args[4]) {
		if base[f.key()] {
			continue
		}
		// callable with numbers alone? results worth scribbling over?
		ok := f.recv == "" || (ints[f.recvBasic] && !strings.HasPrefix(f.recv, "*"))
		for _, p := range f.params {
			ok = ok && (ints[p] || p == "bool")
		}
		scribble := false
		for _, r := range f.results {
			if strings.HasPrefix(r, "[]") && ints[strings.TrimPrefix(r, "[]")] || strings.HasPrefix(r, "map[") {
				scribble = true
			}
		}
		if !ok || !scribble {
			continue
		}
		alias := fmt.Sprintf("lib%d", len(imports))
		if a, have := imports[f.pkgPath]; have {
			alias = a
		} else {
			imports[f.pkgPath] = alias
		}
		var args []string
		k := 0
		call := alias + "." + f.name
		if f.recv != "" {
			call = fmt.Sprintf("%s.%s(arg(a, %d)).%s", alias, f.recv, k, f.name)
			k++
		}
		for _, p := range f.params {
			if p == "bool" {
				args = append(args, fmt.Sprintf("arg(a, %d)&1 == 1", k))
			} else {
				args = append(args, fmt.Sprintf("%s(arg(a, %d))", p, k))
			}
			k++
		}
		var lhs []string
		var after strings.Builder
		for i, r := range f.results {
			v := fmt.Sprintf("r%d", i)
			switch {
			case strings.HasPrefix(r, "[]") && ints[strings.TrimPrefix(r, "[]")]:
				lhs = append(lhs, v)
				fmt.Fprintf(&after, "\t\tfor i := range %s {\n\t\t\t%s[i] = ^%s[i]\n\t\t}\n", v, v, v)
			case strings.HasPrefix(r, "map["):
				lhs = append(lhs, v)
				fmt.Fprintf(&after, "\t\tfor k := range %s {\n\t\t\tdelete(%s, k)\n\t\t}\n", v, v)
			default:
				lhs = append(lhs, "_")
			}
		}
		fmt.Fprintf(&body, "\taddAPIPoke(%q, %q, func(a []uint64) {\n\t\t%s := %s(%s)\n%s\t})\n", f.pkgPath, f.key(), strings.Join(lhs, ", "), call, strings.Join(args, ", "), after.String())
		n++
	}
	fmt.Println("// Code generated by tools/apiscan from the library's source at check time; not committed.")
	fmt.Println("package props")
	if n > 0 {
		fmt.Println("\nimport (")
		var ps []string
		for p := range imports {
			ps = append(ps, p)
		}
		sort.Strings(ps)
		for _, p := range ps {
			fmt.Printf("\t%s %q\n", imports[p], p)
		}
		fmt.Println(")")
	}
	fmt.Println("\nfunc init() {")
	fmt.Print(body.String())
	fmt.Println("}")
}
