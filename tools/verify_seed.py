#!/usr/bin/env python3
"""Independently confirms a seeded change and files it under /verif/seeded/<name>/.

usage: tools/verify_seed.py <name> <property> <outdir> [--pkgdir <dir>] [--run <regex>] [--needs "<text>"]

In a fresh scratch worktree of /repo HEAD (outside /repo and /verif, removed afterwards):
  1. the demonstration passes on the unmodified code,
  2. the patch applies, `go build ./...` passes, every BASELINE stable_pass test still passes,
  3. the demonstration fails with the patch,
  4. the quick checks are run against that worktree (VERIF_REPO) with the patch applied.
"""
import json, os, re, shutil, subprocess, sys, argparse, time

ENV = dict(os.environ, GOFLAGS="-mod=mod", GOPROXY="off", GOSUMDB="off", GOTOOLCHAIN="local")

def sh(cmd, cwd=None, timeout=3600):
    p = subprocess.run(cmd, shell=True, text=True, errors="replace", capture_output=True, cwd=cwd, env=ENV, timeout=timeout)
    return p.returncode, p.stdout + p.stderr

def suite(wt):
    rc, out = sh("go test -json -vet=off -count=1 -timeout 25m ./...", cwd=wt)
    passed = set()
    for l in out.splitlines():
        try: e = json.loads(l)
        except Exception: continue
        if e.get("Action") == "pass" and e.get("Test"):
            passed.add(e["Package"] + "::" + e["Test"])
    want = set(json.load(open("/root/.vp/BASELINE.json"))["stable_pass"])
    return sorted(want - passed)

def main():
    ap = argparse.ArgumentParser()
    ap.add_argument("name"); ap.add_argument("prop"); ap.add_argument("outdir")
    ap.add_argument("--pkgdir", default=None); ap.add_argument("--run", default=None); ap.add_argument("--needs", default="")
    ap.add_argument("--checks", default=None); ap.add_argument("--democmd", default="go run .")
    ap.add_argument("--demoenv", default="", help="e.g. GOARCH=386: environment for the demonstration command")
    a = ap.parse_args()
    wt = "/tmp/vseed/" + a.name
    shutil.rmtree(wt, ignore_errors=True)
    os.makedirs("/tmp/vseed", exist_ok=True)
    sh("git -C /repo worktree prune")
    rc, out = sh("git -C /repo worktree add --detach %s HEAD" % wt)
    assert rc == 0, out
    log = []
    try:
        patch = os.path.join(a.outdir, "patch.diff")
        demo_test = os.path.join(a.outdir, "demo_test.go")
        demo_dir = os.path.join(a.outdir, "demo")
        if os.path.exists(demo_test):
            pkgdir = a.pkgdir
            assert pkgdir is not None, "--pkgdir needed for demo_test.go"
            dst = os.path.join(wt, pkgdir, "zz_seed_demo_test.go")
            run = a.run or "."
            def demo():
                shutil.copy(demo_test, dst)
                try:
                    return sh("%s go test -vet=off -count=1 -run '%s' ./%s" % (("env " + a.demoenv) if a.demoenv else "", run, pkgdir if pkgdir != "." else ""), cwd=wt)
                finally:
                    os.remove(dst)
            demo_cmd = "copy demo_test.go into %s/ ; %s go test -vet=off -count=1 -run '%s' ./%s" % (pkgdir, a.demoenv, run, pkgdir)
        else:
            scratch_demo = "/tmp/vseed/" + a.name + "_demo"
            shutil.rmtree(scratch_demo, ignore_errors=True)
            shutil.copytree(demo_dir, scratch_demo)
            gm = open(os.path.join(scratch_demo, "go.mod")).read()
            gm = re.sub(r"(replace\s+github.com/alttpo/snes\s*=>\s*)\S+", r"\g<1>" + wt, gm)
            open(os.path.join(scratch_demo, "go.mod"), "w").write(gm)
            def demo():
                return sh((("env " + a.demoenv + " ") if a.demoenv else "") + a.democmd, cwd=scratch_demo)
            demo_cmd = "demo/ with its go.mod replace pointed at the worktree ; " + a.demoenv + " " + a.democmd
        rc0, out0 = demo()
        log.append("demo on unmodified code: exit %d" % rc0)
        rc, out = sh("git apply %s" % patch, cwd=wt)
        assert rc == 0, "patch does not apply: " + out
        rcb, outb = sh("go build ./...", cwd=wt)
        log.append("go build ./... with the change: exit %d" % rcb)
        missing = suite(wt)
        log.append("stable_pass tests missing with the change: %d" % len(missing))
        rc1, out1 = demo()
        log.append("demo with the change: exit %d" % rc1)
        tail = [l for l in out1.splitlines() if l.strip()][-6:]
        ok = rc0 == 0 and rc1 != 0 and rcb == 0 and not missing
        print("\n".join(log)); print("  demo output with change:", *tail, sep="\n    ")
        if not ok:
            print("NOT CONFIRMED"); sys.exit(1)
        # run the checks against the scratch worktree (patch applied)
        results = {}
        outd = "/tmp/vseed/" + a.name + "_out"
        os.makedirs(outd, exist_ok=True)
        envc = dict(ENV, VERIF_REPO=wt, VERIF_OUT=outd)
        checks = (a.checks or a.prop).split(",")
        for c in checks:
            t0 = time.time()
            p = subprocess.run("./check %s quick" % c, shell=True, text=True, errors="replace", capture_output=True, cwd="/verif", env=envc)
            rc, out = p.returncode, p.stdout + p.stderr
            first = [l.strip() for l in out.splitlines() if "violation[" in l][:1]
            results[c] = {"exit": rc, "caught": rc == 1 and ("VIOLATION property=%s" % c) in out, "first_violation": (first[0][:300] if first else ""), "wall_s": round(time.time() - t0, 1)}
            print("check %s quick: exit %d %s" % (c, rc, "CAUGHT" if results[c]["caught"] else "MISSED"))
        shutil.rmtree(outd, ignore_errors=True)
        dest = "/verif/seeded/" + a.name
        shutil.rmtree(dest, ignore_errors=True)
        os.makedirs(dest)
        shutil.copy(patch, dest)
        if os.path.exists(demo_test):
            shutil.copy(demo_test, dest)
        else:
            shutil.copytree(demo_dir, os.path.join(dest, "demo"))
        if os.path.exists(os.path.join(a.outdir, "NOTES.md")):
            shutil.copy(os.path.join(a.outdir, "NOTES.md"), dest)
        meta = {
            "breaks_property": a.prop,
            "written_by": "independent sub-agent given only the property text and a scratch worktree",
            "needs_to_manifest": a.needs,
            "repo_commit": sh("git -C /repo rev-parse --short HEAD")[1].strip(),
            "confirmed_in_scratch_worktree": {"demo_command": demo_cmd, "log": log},
            "checks_run_quick": results,
        }
        json.dump(meta, open(os.path.join(dest, "meta.json"), "w"), indent=1)
        print("filed under", dest)
    finally:
        sh("git -C /repo worktree remove --force %s" % wt)
        shutil.rmtree("/tmp/vseed/" + a.name + "_demo", ignore_errors=True)

main()
