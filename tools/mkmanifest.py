#!/usr/bin/env python3
"""Regenerates /verif/MANIFEST.json from the table below (run from /verif)."""
import json, os, subprocess

BUILT = {}  # id -> (technique, level text, level note, design ref)

def add(i, technique, text, note, ref):
    BUILT[i] = (technique, text, note, ref)

add("C01", "runtime reference-model monitor: lockstep of both interpreters against an independent 65C816 model over boundary-directed single steps and random/assembled programs, instrumented memory",
    "held on N compared steps covering (opcode x M x X x wrap-event) cells, with coverage floors; exhaustive only for 8-bit ALU operands. A runtime monitor decides only executions it produces.",
    "trusts the independent model in /verif/internal/ref (written from the WDC rules; abstains on invalid-BCD decimal results, V in decimal mode, and self-aliasing steps)", "DESIGN.md 5 C01")
add("C02", "runtime differential monitor: cpu65c816 vs cpualt in lockstep (registers, flags, E/Stopped, cycles, AllCycles, memory) over directed single steps and random programs in native and emulation mode",
    "held on N lockstep steps covering (opcode x E x M x X x D) cells; no model involved, each interpreter is the other's oracle",
    "whole 16 MiB mapped on both sides with the same lazily-random image; equal-but-wrong behaviour is C01's concern", "DESIGN.md 5 C02")
add("C03", "runtime encoding monitor: every Emitter method (enumerated by reflection) x every tracked width state x operand sweep, compared with an independent encoder and decoded back by the model decoder and by both library CPUs",
    "exhaustive for 8- and 16-bit operands and int8 displacements; 24-bit operands sampled in quick and exhaustive in thorough",
    "method-name -> (mnemonic, mode) table written by hand in /verif/props/emit.go, methods outside it read by the same naming convention (props/discover.go); independent opcode matrix in internal/ref", "DESIGN.md 5 C03")
add("C04", "exhaustive runtime sweep composing the real functions (inverse laws) over all 2^24 bus and 2^24 pak addresses x 4 mappers",
    "exhaustive over the whole stated input space in both tiers", "pak-side class windows as stated in the property", "DESIGN.md 5 C04")
add("C05", "exhaustive runtime sweep: structural invariants (error shape, windows, reject set, 8 KiB page uniformity/order, console-owned agreement) + declarative region-table oracle",
    "exhaustive over the whole stated input space in both tiers", "region tables transcribed from the mapper documentation comments", "DESIGN.md 5 C05")
add("C06", "runtime shadow-model monitor over generated emitter call histories (distance-targeted branches, forward/backward/missing/duplicate labels), bytes diffed before/after Finalize",
    "held on N generated histories covering (reference kinds x outcome x boundary distance x base class) cells", "shadow model of label/reference bookkeeping in /verif/props/emit.go", "DESIGN.md 5 C06")
add("C07", "runtime boundary monitor: emitter instruction starts vs opcode-fetch addresses observed by instrumented memory on both CPUs; exhaustive width-guard refusal matrix",
    "held on N straight-line programs covering width-state sequences; refusal matrix exhaustive", "AssumeREP/AssumeSEP generated only where truthful", "DESIGN.md 5 C07")
add("C08", "runtime panic/address-range monitor: recover() around Step on both CPUs with top-of-address-space directed states; access log maximum address; model address set in native mode",
    "held on N directed + random steps covering (opcode x E x M x X x overflow term) cells", "whole bus mapped by the monitor's memory", "DESIGN.md 5 C08")
add("C09", "runtime round-trip + independent offset-table monitor with single-byte perturbation over generated header contents and image sizes",
    "held on N random headers x 3 versions plus all 80x255 single-byte perturbations of several bases", "offset table written from the SNES header layout in /verif/props/c09.go", "DESIGN.md 5 C09")
add("C10", "runtime shadow-copy monitor over read-chunk and write-length histories at bank boundaries; whole image diffed after every call",
    "held on N histories covering (offset class x history shape x end position) cells; one known finding (reader omits last byte of bank)", "banks only partly inside the image are skipped", "DESIGN.md 5 C10")
add("C11", "exhaustive runtime toggle/write sweep of all 2^24 bus addresses of emulator.System against lorom.BusAddressToPak with shadow copies of ROM/SRAM/WRAM",
    "exhaustive over all 2^24 addresses for reads and writes", "only addresses both sides map are judged, as the statement says", "DESIGN.md 5 C11")
add("C12", "runtime accounting monitor: exhaustive cycle-factor sweep on both CPUs + twin replay of System.RunUntil against a literal single-stepping specification + callback counting",
    "cycle-factor space enumerated; RunUntil on N generated (program, target, budget) cases; termination decided on logical counts", "cpualt has no OnPC/RunUntil and is judged on Step accounting and OnWDM only", "DESIGN.md 5 C12")
add("C13", "runtime shadow-routing monitor over generated Attach histories with instrumented memories; EaDump vs byte-wise reads with sentinel-filled output",
    "held on N histories covering (overlap shape x start residue x boundary kind) cells", "ranges beyond 24 bits or start > end are outside the statement", "DESIGN.md 5 C13")
add("C14", "runtime twin-run monitor (with/without Logger) + trace-line parser checked against pre-step state and the independent decoder",
    "held on N twin programs and N parsed lines covering (opcode x M x X x branch direction) cells", "operand syntax is checked as hex digits + per-mode shape, not a fixed grammar", "DESIGN.md 5 C14")
add("C15", "runtime listing monitor: parser for WriteHexTo/WriteTextTo compared with Bytes() and the shadow model over generated histories with data blocks at 16-byte boundaries",
    "held on N histories covering (data length class x slack x before/after Finalize x base class) cells", "histories with a refused call are excluded", "DESIGN.md 5 C15")
add("C16", "runtime differential monitor: direct emitter vs Clone+Append at every split point of generated histories, observed through the public API",
    "held on N histories x all split points covering what straddles the split", "Finalize outcomes compared as success/failure", "DESIGN.md 5 C16")
add("C17", "exhaustive runtime sweep against closed forms (2^16 colours, 2^24 triples; MulDiv per channel position in quick, all 2^16x256x255 in thorough)",
    "exhaustive in thorough; quick exploits per-channel independence and is exhaustive per channel position", "closed forms computed in int", "DESIGN.md 5 C17")
add("C18", "Go race detector over concurrent per-goroutine instances of every object kind + solo-vs-concurrent result digests + shared-state digest hook",
    "held on N operations in G goroutines with measured overlap pairs and 0 race reports; sees only races on paths the workload drives", "race reports counted from the log, exit code not trusted", "DESIGN.md 5 C18")
add("C19", "runtime shadow-model monitor: histories replayed at every capacity (thorough) / boundary capacities (quick) with full snapshots around each call; nil-target lockstep",
    "held on N histories x capacities covering (refused call kind x bytes short) cells", "tracked flags and listing lines after a refusal are not enumerated by the statement", "DESIGN.md 5 C19")

def main():
    here = os.path.dirname(os.path.dirname(os.path.abspath(__file__)))
    have = set()
    for f in os.listdir(os.path.join(here, "props")):
        pass
    src = ""
    for f in os.listdir(os.path.join(here, "props")):
        if f.endswith(".go"):
            src += open(os.path.join(here, "props", f)).read()
    import re
    have = set(re.findall(r'reg\("(C\d+)"', src))
    props = [json.loads(l) for l in open(os.path.join(here, "properties.jsonl"))]
    checks, na = [], []
    for p in props:
        i = p["id"]
        if i in have and i in BUILT:
            t, text, note, ref = BUILT[i]
            checks.append({
                "property_id": i,
                "quick_cmd": "./check %s quick" % i,
                "thorough_cmd": "./check %s thorough" % i,
                "evidence_file": "/verif/evidence/%s.json" % i,
                "replay_cmd_template": "./check %s --replay {path}" % i,
                "engine": "vcheck",
                "level_claimed": {"category": "exploration", "text": text, "design_ref": ref},
                "level_note": note,
                "technique": t + ("" if i == "C18" else "; the whole monitor repeats itself in a child process built for GOARCH=386 (32-bit int/uint) with GOGC=10; further child processes: a probe of the property's area on js/wasm, natively under 1-12 processors (taskset) and in thousands of identical cold starts, plus a build per custom build tag and a run per environment variable found in the library's source"),
            })
        else:
            na.append({"property_id": i, "reason": "monitor not built yet (see DESIGN.md section 5); will be claimed once ./check %s exists" % i})
    hooks_commits = []
    try:
        out = subprocess.check_output(["git", "-C", "/repo", "log", "--format=%h %s"], text=True)
        hooks_commits = [l.split()[0] for l in out.splitlines() if l.split(" ", 1)[1].startswith("verif:")]
    except Exception:
        pass
    m = {
        "version": 1,
        "setup_cmd": "cd /verif && ./check --build-only",
        "hooks": {
            "guard": "verif",
            "enable": "go build -tags verif (hook files carry //go:build verif). Only C18's shared-state digest uses the hooks: ./check builds every monitor against the library WITHOUT the tag (the default build is what users run) and C18 repeats itself on a -tags verif build as a child process",
            "baseline_off_cmd": "cd /repo && GOFLAGS=-mod=mod GOPROXY=off GOSUMDB=off GOTOOLCHAIN=local go test -json -vet=off -count=1 -timeout 25m ./...",
            "source_commits": hooks_commits,
            "add_only": True,
        },
        "engines": [{"name": "vcheck", "path": "/verif/cmd/vcheck", "serves_properties": sorted(c["property_id"] for c in checks),
                     "kind_free_text": "Go harness (module verif, replace github.com/alttpo/snes => /repo) rebuilt by ./check on every invocation; one runtime monitor per property in /verif/props; C18 is built with -race"}],
        "checks": checks,
        "not_applicable": na,
        "notes": "Technique family: runtime monitoring. Exit 0 held / 1 violation (VIOLATION line) / 2 inconclusive. Known findings live in /verif/known_findings.txt.",
    }
    json.dump(m, open(os.path.join(here, "MANIFEST.json"), "w"), indent=1)
    print("claimed:", [c["property_id"] for c in checks])
    print("not_applicable:", [n["property_id"] for n in na])

main()
