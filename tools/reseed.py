#!/usr/bin/env python3
"""Re-runs every filed seeded change against the current quick tier of the property it breaks
(scratch worktree + VERIF_REPO/VERIF_OUT; /repo is not touched). usage: tools/reseed.py [substring...]"""
import glob, json, os, subprocess, sys, shutil
ENV = dict(os.environ, GOFLAGS="-mod=mod", GOPROXY="off", GOSUMDB="off", GOTOOLCHAIN="local")
def sh(cmd, **kw):
    return subprocess.run(cmd, shell=True, text=True, errors="replace", capture_output=True, env=kw.pop("env", ENV), **kw)
sel = sys.argv[1:]
wt, out = "/tmp/vreseed/wt", "/tmp/vreseed/out"
sh("git -C /repo worktree remove --force %s; rm -rf /tmp/vreseed; mkdir -p %s; git -C /repo worktree prune" % (wt, out))
assert sh("git -C /repo worktree add --detach %s HEAD" % wt).returncode == 0
missed = []
try:
    for d in sorted(glob.glob("/verif/seeded/*/")):
        name = os.path.basename(d.rstrip("/"))
        if sel and not any(s in name for s in sel):
            continue
        meta = json.load(open(d + "meta.json"))
        prop = meta["breaks_property"]
        # (a few changes are caught by a neighbouring monitor only: use the first one recorded as catching it)
        rec = meta.get("checks_run_quick", {})
        if not rec.get(prop, {}).get("caught", True):
            prop = next((k for k, v in rec.items() if v.get("caught")), prop)
        if sh("git -C %s apply %spatch.diff" % (wt, d)).returncode != 0:
            print(name, "PATCH-DOES-NOT-APPLY"); missed.append(name); continue
        env = dict(ENV, VERIF_REPO=wt, VERIF_OUT=out)
        c = sh("cd /verif && timeout 1200 ./check %s quick" % prop, env=env)
        ok = c.returncode == 1 and ("VIOLATION property=%s" % prop) in c.stdout
        print("%-45s %s %s" % (name, prop, "CAUGHT" if ok else "MISSED(rc=%d)" % c.returncode), flush=True)
        if not ok:
            missed.append(name)
        sh("git -C %s checkout -- . && git -C %s clean -fdq" % (wt, wt))
finally:
    sh("git -C /repo worktree remove --force %s; rm -rf /tmp/vreseed; git -C /repo worktree prune" % wt)
print("\nnot caught:", missed)
sys.exit(1 if missed else 0)
