#!/usr/bin/env python3
"""Runs the repository suite with the verif guard OFF and compares with BASELINE.json stable_pass."""
import json, subprocess, os, sys
env = dict(os.environ, GOFLAGS="-mod=mod", GOPROXY="off", GOSUMDB="off", GOTOOLCHAIN="local")
repo = os.environ.get("BASELINE_REPO", "/repo")
out = subprocess.run("cd " + repo + " && go test -json -vet=off -count=1 -timeout 25m ./...", shell=True, text=True, capture_output=True, env=env).stdout
passed = set()
for l in out.splitlines():
    try: e = json.loads(l)
    except Exception: continue
    if e.get("Action") == "pass" and e.get("Test"):
        passed.add(e["Package"] + "::" + e["Test"])
base = json.load(open("/root/.vp/BASELINE.json"))
want = set(base["stable_pass"])
missing = sorted(want - passed)
print("stable_pass=%d passed_now=%d missing=%d newly_passing=%d" % (len(want), len(passed), len(missing), len(passed - want)))
for m in missing[:20]: print("  MISSING", m)
sys.exit(1 if missing else 0)
