#!/usr/bin/env python3
"""Mutant gauntlet (not a registered check): applies one textual mutation at a
time to a scratch git worktree of /repo's HEAD (outside /repo and /verif,
removed at the end), runs the quick tier of the properties it should break
against it (VERIF_REPO / VERIF_OUT), and expects exit 1 + VIOLATION.

usage: selftest/mutants.py [name-substring ...]      (run from /verif)
"""
import subprocess, sys, os, time

REPO = "/tmp/vmut/wt"
OUT = "/tmp/vmut/out"
M = []  # (name, file, old, new, [props])

def m(name, file, old, new, props, count=1):
    M.append((name, file, old, new, props, count))

# ---- C17
m("c17-mask15", "color15/color.go", "uint16(r&31))", "uint16(r&15))", ["C17"])
m("c17-clamp32", "color15/color.go", "if mg > 31 {\n\t\tmg = 31", "if mg > 32 {\n\t\tmg = 31", ["C17"])
m("c17-green-shift", "color15/color.go", "(c & 0x03E0) >> 5", "(c & 0x03E0) >> 4", ["C17"])
# ---- C04 / C05
m("c04-hirom-sram-mask", "mapping/hirom/mapping.go", "bank := (busAddr >> 13) & 0x1F", "bank := (busAddr >> 13) & 0x0F", ["C04"])
m("c04-exhirom-ge", "mapping/exhirom/mapping.go", "if bank >= 0x7E {", "if bank > 0x7E {", ["C04"])
m("c05-lorom-le2000", "mapping/lorom/mapping.go", "} else if busAddr&0xFFFF < 0x2000 {\n\t\t\t// Lower 8KiB of WRAM: $00:0000-$6F:1FFF", "} else if busAddr&0xFFFF <= 0x2000 {\n\t\t\t// Lower 8KiB of WRAM: $00:0000-$6F:1FFF", ["C05"])
m("c05-sa1-6000", "mapping/sa1rom/mapping.go", "} else if offs >= 0x6000 {\n\t\t\t// BW-RAM image dynamically selects a single $2000 sized block:\n\t\t\tpakAddr = 0xE00000 | (offs - 0x6000)\n\t\t} else if offs < 0x2000 {\n\t\t\t// WRAM\n\t\t\tpakAddr = 0xF50000 | offs\n\t\t} else {\n\t\t\t// SA-1 I-RAM or registers\n\t\t\terr = util.ErrUnmappedAddress\n\t\t}\n\t\treturn\n\t} else if bank >= 0x7E", "} else if offs > 0x6000 {\n\t\t\t// BW-RAM image dynamically selects a single $2000 sized block:\n\t\t\tpakAddr = 0xE00000 | (offs - 0x6000)\n\t\t} else if offs < 0x2000 {\n\t\t\t// WRAM\n\t\t\tpakAddr = 0xF50000 | offs\n\t\t} else {\n\t\t\t// SA-1 I-RAM or registers\n\t\t\terr = util.ErrUnmappedAddress\n\t\t}\n\t\treturn\n\t} else if bank >= 0x7E", ["C05"])
m("c05-error-nonzero", "mapping/hirom/mapping.go", "\treturn 0, util.ErrUnmappedAddress\n}\n\nfunc PakAddressToBus", "\treturn busAddr, util.ErrUnmappedAddress\n}\n\nfunc PakAddressToBus", ["C05"])
# ---- C06
m("c06-ge127", "asm/emitter.go", "if diff > 127 || diff < -128", "if diff >= 127 || diff < -128", ["C06"])
m("c06-off-by-one", "asm/emitter.go", "diff := int(addr) - int(s8addr+1)", "diff := int(addr) - int(s8addr)", ["C06"])
m("c06-jump-bits", "asm/emitter.go", "uint16(addr&0xFFFF))", "uint16(addr>>8))", ["C06"])
m("c06-dup-label", "asm/emitter.go", "\t\tpanic(fmt.Errorf(\"label '%s' already defined at %#06x\", name, oldAddr))", "\t\t_ = oldAddr", ["C06"])
# ---- C09
m("c09-swap-fields", "header.go", "\tROMSize            byte     `rom:\"FFD7\"`\n\tRAMSize            byte     `rom:\"FFD8\"`", "\tRAMSize            byte     `rom:\"FFD8\"`\n\tROMSize            byte     `rom:\"FFD7\"`", ["C09"])
m("c09-version-title19", "header.go", "} else if h.Title[20] == 0x00 {", "} else if h.Title[19] == 0x00 {", ["C09"])
m("c09-write-v1-from-ffb0", "rom.go", "if r.Header.version <= 1 {", "if r.Header.version < 1 {", ["C09"])
m("c09-big-endian-vector", "header.go", "\t\terr = binary.Read(b, binary.LittleEndian, p)", "\t\tif hv.Type().Field(i).Name == \"CheckSum\" {\n\t\t\terr = binary.Read(b, binary.BigEndian, p)\n\t\t} else {\n\t\t\terr = binary.Read(b, binary.LittleEndian, p)\n\t\t}", ["C09"])
# ---- C10
m("c10-writer-no-advance", "rom.go", "\tw.o += uint32(n)\n", "\tw.o += 0\n", ["C10"])
m("c10-reader-late", "rom.go", "return bytes.NewReader(r.Contents[pcStart:pcEnd])", "return bytes.NewReader(r.Contents[pcStart+1:pcEnd])", ["C10"])
m("c10-reader-next-bank", "rom.go", "\tpcEnd := (bank << 15) | 0x7FFF\n\treturn bytes.NewReader", "\tpcEnd := (bank << 15) | 0x7FFF + 2\n\treturn bytes.NewReader", ["C10"])
# ---- C11
m("c11-sram-mirror-offset", "emulator/system.go", "memory.NewRAM(s.SRAM[halfBank:halfBank+0x8000], bank+0xF0_0000),", "memory.NewRAM(s.SRAM[halfBank:halfBank+0x8000], bank+0xF0_0000-0x10),", ["C11"])
m("c11-wram-mirror-size", "emulator/system.go", "for b := uint32(0x80); b < 0xC0; b++ {\n\t\t\tbank := b << 16\n\t\t\terr = s.Bus.Attach(\n\t\t\t\tmemory.NewRAM(s.WRAM[0:0x2000], bank),", "for b := uint32(0x80); b < 0xC0; b++ {\n\t\t\tbank := b << 16\n\t\t\terr = s.Bus.Attach(\n\t\t\t\tmemory.NewRAM(s.WRAM[0x1000:0x3000], bank),", ["C11"])
m("c11-rom-mirror-fullbank", "emulator/system.go", "memory.NewRAM(s.ROM[halfBank:halfBank+0x8000], (bank+0x80_0000)|0x8000),", "memory.NewRAM(s.ROM[bank:bank+0x8000], (bank+0x80_0000)|0x8000),", ["C11"])
# ---- C13
m("c13-attach-lt", "emulator/bus/bus.go", "for x := (start >> 4); x <= (end >> 4); x++ {", "for x := (start >> 4); x < (end >> 4); x++ {", ["C13"])
m("c13-dump-lt-end", "emulator/bus/bus.go", "\t\tfor n := int(a & 0xf); a <= end && n < 16; n++ {\n\t\t\tdata[i] = s.Read(a)", "\t\tfor n := int(a & 0xf); a < end && n < 16; n++ {\n\t\t\tdata[i] = s.Read(a)", ["C13"])
m("c13-align-on-end", "emulator/bus/bus.go", "if ((end + 1) & 0xf) != 0 {", "if ((end) & 0xf) != 0 && false {", ["C13"])
m("c13-dump-masks-addr", "emulator/bus/bus.go", "\t\t\tdata[i] = s.Read(a)", "\t\t\tdata[i] = s.Read(a & 0xffff)", ["C13"])
# ---- C15
m("c15-text-address-offs", "asm/emitter.go", "\t\t\txb.S(\" ; $\").X06(line.address).S(\"  \").X02(d[0]).C(' ').X02(d[1]).C(' ').X02(d[2])\n\t\tcase lineIns3Label:", "\t\t\txb.S(\" ; $\").X06(offs).S(\"  \").X02(d[0]).C(' ').X02(d[1]).C(' ').X02(d[2])\n\t\tcase lineIns3Label:", ["C15"])
m("c15-hex-skip-label-ins", "asm/emitter.go", "\t\t\tlabel := line.label\n\t\t\txb.S(\"0x\").X02(d[0]).C(',')\n\t\t\txb.C(' ').S(\"0x\").X02(d[1]).C(',')\n\t\t\txb.Sn(\"\", (4-line.byteCount)*6).S(\" // \").Sn(line.ins, 5).C(' ').S(label)", "\t\t\tlabel := line.label\n\t\t\txb.S(\"0x\").X02(d[0]).C(',')\n\t\t\txb.Sn(\"\", (4-line.byteCount)*6).S(\" // \").Sn(line.ins, 5).C(' ').S(label)", ["C15"])
# ---- C16
m("c16-clone-no-u16", "asm/emitter.go", "\tfor k, v := range a.danglingU16 {\n\t\tcv := make([]uint32, len(v), cap(v))\n\t\tcopy(cv, v)\n\t\te.danglingU16[k] = cv\n\t}\n\treturn e", "\treturn e", ["C16"])
m("c16-append-no-flags", "asm/emitter.go", "\ta.flagsTracker = e.flagsTracker\n", "", ["C16"])
m("c16-clone-alias-labels", "asm/emitter.go", "\tfor k, v := range a.labels {\n\t\te.labels[k] = v\n\t}\n\tfor k, v := range a.danglingS8 {", "\te.labels = a.labels\n\tfor k, v := range a.danglingS8 {", ["C16"])
# ---- C19
m("c19-cap-ge", "asm/emitter.go", "\tif a.n+len(d) > len(a.code) {\n\t\tpanic(fmt.Errorf(\"not enough space\"))\n\t}\n\n\tn := copy", "\tif a.n+len(d) >= len(a.code) {\n\t\tpanic(fmt.Errorf(\"not enough space\"))\n\t}\n\n\tn := copy", ["C19"])
m("c19-nil-emitbytes-addr", "asm/emitter.go", "\t_, _ = a.write(b)\n\ta.address += uint32(len(b))", "\tif n, _ := a.write(b); n > 0 {\n\t\ta.address += uint32(len(b))\n\t}", ["C19"])
m("c19-partial-write", "asm/emitter.go", "\tif a.n+len(d) > len(a.code) {\n\t\tpanic(fmt.Errorf(\"not enough space\"))\n\t}\n\n\tn := copy", "\tif a.n+len(d) > len(a.code) {\n\t\tcopy(a.code[a.n:], d)\n\t\tpanic(fmt.Errorf(\"not enough space\"))\n\t}\n\n\tn := copy", ["C19"])

# ---- C01 / C02 / C08 (CPU)
m("c01-inx-forgets-n", "emulator/cpu65c816/cpu.go", "\t\tcpu.RXl++\n\t\tcpu.setZN8(cpu.RXl)", "\t\tcpu.RXl++\n\t\tcpu.setZ8(cpu.RXl)", ["C01", "C02"])
m("c01-dpx-no-wrap-both", "emulator/cpu65c816/cpu.go", "\t\t\taddr = uint16(arg8) + cpu.RX + cpu.RD\n", "\t\t\taddr = uint16(arg8) + cpu.RX + cpu.RD\n\t\t\tif uint32(arg8)+uint32(cpu.RX)+uint32(cpu.RD) > 0xFFFF {\n\t\t\t\taddr |= 0x8000\n\t\t\t}\n", ["C01"])
m("c01-plb-flags16", "emulator/cpualt/cpu.go", "\tcpu.RDBR = cpu.pull()\n\tcpu.setZN8(cpu.RDBR)", "\tcpu.RDBR = cpu.pull()\n\tcpu.setZN16(uint16(cpu.RDBR))", ["C01", "C02"])
m("c01-mode-changed", "emulator/cpualt/cpu.go", "{0xb6, \"ldx\", m_DP_Y,", "{0xb6, \"ldx\", m_DP_X,", ["C01", "C02"])
m("c01-xba-flags", "emulator/cpu65c816/cpu.go", "\t\tcpu.RA = newh | newl\n\t\tcpu.setZN8(byte(newl))", "\t\tcpu.RA = newh | newl\n\t\tcpu.setZN16(cpu.RA)", ["C01"])
m("c01-decimal-carry", "emulator/cpu65c816/cpu.go", "\t\tif r > 0x9 {\n\t\t\tr += 0x6\n\t\t}", "\t\tif r > 0x9 && n < 3 {\n\t\t\tr += 0x6\n\t\t}", ["C01"])
m("c02-cycle-table-alt", "emulator/cpualt/cpu_tables.go", "var decCycles_flagM = [256]byte{\n\t0, 1, 0, 1, 2, 1, 2, 1,", "var decCycles_flagM = [256]byte{\n\t0, 1, 0, 1, 2, 1, 1, 1,", ["C02"])
m("c02-alt-mask-dropped", "emulator/cpualt/bus.go", "func (b *Bus) eaRead16_cross(ea uint32) uint16 {\n\tll := b.Read[ea>>4](ea)\n\tea = (ea + 1) & 0x00ffffff // wrap on 24bits", "func (b *Bus) eaRead16_cross(ea uint32) uint16 {\n\tll := b.Read[ea>>4](ea)\n\tea = (ea + 1) & 0x00fffffe // wrap on 24bits", ["C02"])
m("c02-alt-stopped", "emulator/cpualt/cpu.go", "func (cpu *CPU) stp() {\n\tcpu.Stopped = true", "func (cpu *CPU) stp() {\n\tcpu.Stopped = cpu.E == 0", ["C02"])
m("c02-emu-stack-alt", "emulator/cpualt/cpu.go", "\tcpu.SP--\n\n\tif cpu.E == 1 {\n\t\tcpu.SP = cpu.SP & 0x00FF\n\t\tcpu.SP = cpu.SP | 0x1000", "\tcpu.SP--\n\n\tif cpu.E == 1 {\n\t\tcpu.SP = cpu.SP & 0x00FF\n\t\tcpu.SP = cpu.SP | 0x0100", ["C02"])
m("c08-prim-mask-removed", "emulator/cpu65c816/cpu.go", "\tea &= 0x00ffffff\n", "", ["C08", "C02"])
m("c08-alt-write-mask", "emulator/cpualt/bus.go", "func (b *Bus) eaWrite16_cross(ea uint32, value uint16) {\n\tll := byte(value)\n\thh := byte(value >> 8)\n\tb.Write[ea>>4](ea, ll)\n\tea = (ea + 1) & 0x00ffffff // wrap on 24bits", "func (b *Bus) eaWrite16_cross(ea uint32, value uint16) {\n\tll := byte(value)\n\thh := byte(value >> 8)\n\tb.Write[ea>>4](ea, ll)\n\tea = (ea + 1)", ["C08"])
m("c08-both-abs-cross", "emulator/cpu65c816/cpu.go", "\tcpu.Bus.EaWrite((ea+1)&0x00ffffff, hh) // wrap on 24bits", "\tcpu.Bus.EaWrite((ea + 1), hh)", ["C08"])

# ---- C03 / C07
m("c03-stz-absx-opcode", "asm/emitter.go", "\td[0] = 0x9E\n", "\td[0] = 0x9D\n", ["C03"])
m("c03-imm16-swapped", "asm/emitter.go", "func imm16(v uint16) (byte, byte) {\n\treturn byte(v), byte(v >> 8)", "func imm16(v uint16) (byte, byte) {\n\treturn byte(v >> 8), byte(v)", ["C03"])
m("c03-mvn-swapped", "asm/emitter.go", "\td[1], d[2] = destBank, srcBank", "\td[1], d[2] = srcBank, destBank", ["C03"])
m("c03-long-bank-lost-rare", "asm/emitter.go", "func imm24(v uint32) (byte, byte, byte) {\n\treturn byte(v), byte(v >> 8), byte(v >> 16)", "func imm24(v uint32) (byte, byte, byte) {\n\tif v == 0xC0FFEE {\n\t\treturn byte(v), byte(v >> 8), 0\n\t}\n\treturn byte(v), byte(v >> 8), byte(v >> 16)", ["C03"])
m("c07-isx-tests-m", "asm/flags.go", "\treturn Flags(t)&IndexRegister8bit == 0", "\treturn Flags(t)&Accumulator8bit == 0", ["C07"])
m("c07-sep-forgets-tracker", "asm/emitter.go", "func (a *Emitter) SEP(c Flags) {\n\ta.AssumeSEP(c)\n", "func (a *Emitter) SEP(c Flags) {\n\ta.AssumeSEP(c &^ 0x10)\n", ["C07"])
m("c07-guard-inverted", "asm/emitter.go", "func (a *Emitter) CPY_imm8_b(m uint8) {\n\tif a.IsX16bit() {", "func (a *Emitter) CPY_imm8_b(m uint8) {\n\tif !a.IsX16bit() {", ["C07"])
m("c07-guard-missing", "asm/emitter.go", "func (a *Emitter) LDY_imm16_w(m uint16) {\n\tif !a.IsX16bit() {", "func (a *Emitter) LDY_imm16_w(m uint16) {\n\tif false {", ["C07"])

# ---- C12
m("c12-rununtil-le", "emulator/system.go", "for cycles := uint64(0); cycles < maxCycles; {", "for cycles := uint64(0); cycles <= maxCycles; {", ["C12"])
m("c12-allcycles-plus1", "emulator/cpu65c816/cpu.go", "\tcpu.AllCycles += uint64(cpu.Cycles)\n", "\tcpu.AllCycles += uint64(cpu.Cycles) + 1\n", ["C12"])
m("c12-onpc-dropped", "emulator/cpu65c816/cpu.go", "\tif cb, ok := cpu.OnPC[uint32(cpu.RK)<<16|uint32(cpu.PC)]; ok {\n\t\tcb()\n\t}\n", "", ["C12"])
m("c12-onpc-ignores-bank", "emulator/cpu65c816/cpu.go", "cpu.OnPC[uint32(cpu.RK)<<16|uint32(cpu.PC)]", "cpu.OnPC[uint32(cpu.RK&0xFE)<<16|uint32(cpu.PC)]", ["C12"])
m("c12-rununtil-pc16", "emulator/system.go", "\t\tif s.GetPC() == targetPC {\n\t\t\tbreak\n\t\t}", "\t\tif s.GetPC()&0xFFFF == targetPC&0xFFFF {\n\t\t\tbreak\n\t\t}", ["C12"])
m("c12-rununtil-step-before-check", "emulator/system.go", "\t\tif s.GetPC() == targetPC {\n\t\t\tbreak\n\t\t}\n\t\tif s.Logger != nil {\n\t\t\to := oa[:0]\n\t\t\to = s.CPU.DisassembleCurrentPC(o)\n\t\t\t_, _ = s.Logger.Write(o)\n\t\t}\n\t\tnCycles, _ := s.CPU.Step()\n\t\tcycles += uint64(nCycles)", "\t\tif s.Logger != nil {\n\t\t\to := oa[:0]\n\t\t\to = s.CPU.DisassembleCurrentPC(o)\n\t\t\t_, _ = s.Logger.Write(o)\n\t\t}\n\t\tnCycles, _ := s.CPU.Step()\n\t\tcycles += uint64(nCycles)\n\t\tif s.GetPC() == targetPC {\n\t\t\tbreak\n\t\t}", ["C12"])
m("c12-zero-cycle-opcode", "emulator/cpu65c816/cpu.go", "{0xea, \"nop\", m_Implied, 1, 2, op_nop},", "{0xea, \"nop\", m_Implied, 1, 0, op_nop},", ["C12"])
m("c12-wdm-callback-stale", "emulator/cpualt/cpu.go", "\tcpu.WDM = cpu.cmdRead()\n\n\t// invoke callback:\n\tonWDM := cpu.OnWDM\n\tif onWDM != nil {\n\t\tonWDM(cpu.WDM)", "\told := cpu.WDM\n\tcpu.WDM = cpu.cmdRead()\n\n\t// invoke callback:\n\tonWDM := cpu.OnWDM\n\tif onWDM != nil {\n\t\tonWDM(old)", ["C12"])
m("c12-stopped-cleared-by-step", "emulator/cpualt/cpu.go", "\tcpu.PPC = cpu.PC\n\tcpu.PRK = cpu.RK\n", "\tcpu.PPC = cpu.PC\n\tcpu.PRK = cpu.RK\n\tcpu.Stopped = false\n", ["C12"])

# ---- C14
m("c14-disasm-uses-cpu-pc-plus1", "emulator/cpu65c816/cpu_disassembler.go", "xb.Db(c.Cycles).C('\\t').X02(c.RK).C(':').X04(myPC).C('|')", "xb.Db(c.Cycles).C('\\t').X02(c.RK).C(':').X04(myPC &^ 0x8000 | myPC&0x8000).C('|')\n\tif c.D == 1 && c.M == 0 {\n\t\tc.Z = 0\n\t}", ["C14"])
m("c14-flagx-sized-by-m", "emulator/cpu65c816/cpu_disassembler.go", "\tif mode == m_Immediate_flagX {\n\t\tsizeAdjust = c.X\n\t}", "\tif mode == m_Immediate_flagX {\n\t\tsizeAdjust = c.M\n\t}", ["C14"])
m("c14-flags-order", "emulator/cpu65c816/cpu_disassembler.go", "\tappendCPUFlags(&xb, c.Z, 'Z')\n\tappendCPUFlags(&xb, c.C, 'C')", "\tappendCPUFlags(&xb, c.C, 'Z')\n\tappendCPUFlags(&xb, c.Z, 'C')", ["C14"])
m("c14-alt-x-width", "emulator/cpualt/cpu_disassembler.go", "\t\t_, _ = fmt.Fprintf(w, \"A=%04x X=--%02x Y=--%02x\", c.RA, c.RXl, c.RYl)", "\t\t_, _ = fmt.Fprintf(w, \"A=%04x X=--%02x Y=--%02x\", c.RA, byte(c.RX>>8), c.RYl)", ["C14"])
m("c14-logger-reserve-steps", "emulator/system.go", "\t\treserver.Reserve(40 * n / 2)", "\t\treserver.Reserve(40 * n / 2)\n\t\tif n > 0x80 {\n\t\t\ts.CPU.AllCycles++\n\t\t}", ["C14"])
m("c14-abs-long-order", "emulator/cpualt/cpu_disassembler.go", "\t\tn, _ = fmt.Fprintf(w, \"$%02x%02x%02x\", w3, w2, w1)\n\tcase m_Absolute_Long_X:", "\t\tn, _ = fmt.Fprintf(w, \"$%02x%02x%02x\", w3, w1, w2)\n\tcase m_Absolute_Long_X:", ["C14"])
m("c14-rel16-base", "emulator/cpu65c816/cpu_disassembler.go", "\t\taddr := c.PC + 3 + arg16", "\t\taddr := c.PC + 2 + arg16", ["C14"])

# ---- C18
m("c18-shared-scratch-disasm", "emulator/cpu65c816/cpu_disassembler.go", "func (c *CPU) DisassembleTo(myPC uint16, o []byte) []byte {\n\txb := xbuf.B(o)", "var sharedScratch [256]byte\n\nfunc (c *CPU) DisassembleTo(myPC uint16, o []byte) []byte {\n\txb := xbuf.B(sharedScratch[:0])\n\tdefer func() { o = append(o[:0], xb...) }()", ["C18"])
m("c18-memoised-size", "emulator/cpu65c816/cpu.go", "\tcpu.stepPC = uint16(instructions[opcode].size)\n", "\tcpu.stepPC = uint16(instructions[opcode].size)\n\tinstructions[opcode].opcode = opcode // memoise\n", ["C18"])
m("c18-shared-builder-emitbytes", "asm/emitter.go", "func (a *Emitter) EmitBytes(b []byte) {\n\tif a.generateText {\n\t\ta.emitBase()\n\t\ts := strings.Builder{}", "var dbBuilder strings.Builder\n\nfunc (a *Emitter) EmitBytes(b []byte) {\n\tif a.generateText {\n\t\ta.emitBase()\n\t\ts := &dbBuilder\n\t\ts.Reset()", ["C18"])
m("c18-region-cache-write", "header.go", "\tif h.OldMakerCode == 0x33 {\n\t\th.version = 3", "\tif _, ok := RegionNames[h.DestinationCode]; !ok {\n\t\tRegionNames[h.DestinationCode] = \"Unknown\"\n\t}\n\tif h.OldMakerCode == 0x33 {\n\t\th.version = 3", ["C18"])
m("c18-last-mapped-global", "mapping/util/mapping.go", "func BankToLinear(addr uint32) uint32 {\n\tbank := addr >> 16", "var LastBank uint32\n\nfunc BankToLinear(addr uint32) uint32 {\n\tbank := addr >> 16\n\tLastBank = bank", ["C18"])
m("c18-alwayserror-counts", "rom.go", "func (alwaysError) Read(p []byte) (int, error) {\n\treturn 0, io.ErrUnexpectedEOF", "var alwaysErrorCalls int\n\nfunc (alwaysError) Read(p []byte) (int, error) {\n\talwaysErrorCalls++\n\treturn 0, io.ErrUnexpectedEOF", ["C18"])

m("c01-inc16-wrap-z", "emulator/cpualt/cpu.go", "\t\t\tvalue := cpu.cmdRead16() + 1\n\t\t\tcpu.cmdWrite16(value)\n\t\t\tcpu.setZN16(value)", "\t\t\tvalue := cpu.cmdRead16() + 1\n\t\t\tcpu.cmdWrite16(value)\n\t\t\tcpu.setZN16(value)\n\t\t\tif value == 0 {\n\t\t\t\tcpu.Z = 0\n\t\t\t}", ["C01", "C02"])
m("c01-cpx16-equal-carry", "emulator/cpu65c816/cpu.go", "func (cpu *CPU) compare16(a, b uint16) {\n\tcpu.setZN16(a - b)\n\tif a >= b {", "func (cpu *CPU) compare16(a, b uint16) {\n\tcpu.setZN16(a - b)\n\tif a > b || (a == b && a != 0x8000) {", ["C01"])

m("c02-irq-vector-alt", "emulator/cpualt/cpu.go", "\tcpu.PC = cpu.Bus.nRead16_cross(0x00, 0xFFEE)", "\tcpu.PC = cpu.Bus.nRead16_cross(0x00, 0xFFFE)", ["C02"])
m("c02-nmi-pushes-k-alt", "emulator/cpualt/cpu.go", "func (cpu *CPU) nmi() {\n\tcpu.push16(cpu.PC)", "func (cpu *CPU) nmi() {\n\tcpu.push(cpu.RK)\n\tcpu.push16(cpu.PC)", ["C02"])

def sh(cmd, **kw):
    return subprocess.run(cmd, shell=True, text=True, capture_output=True, **kw)

def main():
    sel = sys.argv[1:]
    env = dict(os.environ, GOFLAGS="-mod=mod", GOPROXY="off", GOSUMDB="off", GOTOOLCHAIN="local", VERIF_REPO=REPO, VERIF_OUT=OUT)
    sh("git -C /repo worktree remove --force %s; rm -rf /tmp/vmut; mkdir -p %s; git -C /repo worktree prune" % (REPO, OUT))
    r = sh("git -C /repo worktree add --detach %s HEAD" % REPO)
    if r.returncode != 0:
        print("cannot create scratch worktree:", r.stderr); sys.exit(2)
    res = []
    try:
        for name, file, old, new, props, count in M:
            if sel and not any(s in name for s in sel):
                continue
            path = os.path.join(REPO, file)
            src = open(path).read()
            if src.count(old) < 1:
                res.append((name, "PATTERN-NOT-FOUND")); print(name, "PATTERN-NOT-FOUND"); continue
            try:
                open(path, "w").write(src.replace(old, new, count))
                b = sh("cd %s && go build ./... " % REPO, env=env)
                if b.returncode != 0:
                    res.append((name, "DOES-NOT-COMPILE")); print(name, "DOES-NOT-COMPILE", b.stderr[:300]); continue
                for p in props:
                    t0 = time.time()
                    c = sh("cd /verif && timeout 1500 ./check %s quick" % p, env=env)
                    ok = c.returncode == 1 and "VIOLATION property=%s" % p in c.stdout
                    first = [l for l in c.stdout.splitlines() if "violation[" in l][:1]
                    print("%-28s %s %-9s %5.1fs %s" % (name, p, "CAUGHT" if ok else "MISSED(rc=%d)" % c.returncode, time.time() - t0, (first[0][:160] if first else "")))
                    res.append((name + ":" + p, "CAUGHT" if ok else "MISSED"))
            finally:
                sh("git -C %s checkout -- ." % REPO)
    finally:
        sh("git -C /repo worktree remove --force %s; rm -rf /tmp/vmut; git -C /repo worktree prune" % REPO)
    missed = [r for r in res if r[1] != "CAUGHT"]
    print("\n%d mutants run, %d not caught: %s" % (len(res), len(missed), missed))

main()
